"""Front-end for the generated Wireshark dissector fragments (property C17).

Parses the C-like text the generator prints into wow_message_parser/tests/wireshark/
{parser,variables,register,imports,enums}.txt into a JSON AST that spec/Dissector.tla interprets.
Purely syntactic: no statement is given a meaning here, nothing is resolved or evaluated.  A
statement shape this parser does not know is a ToolError (it cannot be judged), never skipped.

AST (lowered for TLC: every instruction record has every key, integers that may exceed 31 bits are
little-endian byte lists):

  progs   : [{sect: "world"|"login", name: <case label>, blk: <block id>, line}]
  blocks  : [{id, ins: [instr]}]                      (1-based id = position)
  instr   : {op, hf, n, nvar, enc, var, blk, arms, els, iv, bound, bvar, endv, cases, line}
     op = add | add_ret | cstring | string | sized_cstring | packed_guid | aura_mask | update_mask
        | spline | push | pop | for | while | setlen (endv) | if | pvswitch | uncompress | saveptv | newptv
        | setcend | freeptv | restoreptv | cnull
     if.arms  = [{ck: "cmp"|"dir"|"lenpos"|"ctvb", conds: [{var, cmp, val}], blk}]   els = block id | 0
     pvswitch.cases = [{vals: [int], blk}]
  hfs     : {name: {imported: bool, registered: bool, ft, base, strings}}
  vars    : [declared guint32 names]
  consts  : {NAME: {neg: bool, mag: [4 bytes LE of the magnitude], wide: bool, typedef}}
  typedefs: {e_name: [constant names]}
"""
import json
import os
import re
import sys

from tools import common as C

# ----------------------------------------------------------------------------------------------
# tokens
# ----------------------------------------------------------------------------------------------
_TOK = re.compile(r"""
    (?P<ws>\s+)
  | (?P<str>"(?:[^"\\]|\\.)*")
  | (?P<num>0[xX][0-9A-Fa-f]+|\d+)
  | (?P<id>[A-Za-z_][A-Za-z_0-9]*)
  | (?P<op>==|!=|\|\||&&|\+\+|<=|>=|->|[{}()\[\];,:<>=&|*+\-!.])
""", re.X)


class Tok:
    __slots__ = ("k", "v", "line")

    def __init__(self, k, v, line):
        self.k, self.v, self.line = k, v, line

    def __repr__(self):
        return "%s:%r@%d" % (self.k, self.v, self.line)


def tokenize(text, what):
    out, pos, line = [], 0, 1
    while pos < len(text):
        m = _TOK.match(text, pos)
        if not m:
            raise C.ToolError("%s line %d: cannot tokenize %r" % (what, line, text[pos:pos + 30]))
        k = m.lastgroup
        v = m.group(k)
        if k != "ws":
            out.append(Tok(k, v, line))
        line += v.count("\n")
        pos = m.end()
    return out


def le4(v):
    return [(v >> (8 * i)) & 0xFF for i in range(4)]


# ----------------------------------------------------------------------------------------------
# parser.txt
# ----------------------------------------------------------------------------------------------
HELPERS_HF = {"add_cstring": "cstring", "add_string": "string", "add_sized_cstring": "sized_cstring"}
HELPERS_NOHF = {"add_packed_guid": "packed_guid", "add_aura_mask": "aura_mask",
                "add_update_mask": "update_mask", "add_monster_move_spline": "spline"}
ENCODINGS = {"ENC_LITTLE_ENDIAN": "le", "ENC_BIG_ENDIAN": "be", "ENC_NA": "na"}


class ParserTxt:
    def __init__(self, text):
        self.t = tokenize(text, "parser.txt")
        self.i = 0
        self.blocks = []
        self.progs = []

    # -- token helpers
    def peek(self, o=0):
        return self.t[self.i + o] if self.i + o < len(self.t) else Tok("eof", "", -1)

    def at(self, *vals):
        for o, v in enumerate(vals):
            if self.peek(o).v != v:
                return False
        return True

    def take(self, v=None, k=None):
        t = self.peek()
        if (v is not None and t.v != v) or (k is not None and t.k != k):
            raise C.ToolError("parser.txt line %d: expected %r, found %r" % (t.line, v or k, t.v))
        self.i += 1
        return t

    def seq(self, *vals):
        for v in vals:
            self.take(v)

    @staticmethod
    def blank(op, line):
        return {"op": op, "hf": "", "n": 0, "nvar": "", "enc": "", "var": "", "blk": 0, "arms": [], "els": 0,
                "iv": [], "bound": 0, "bvar": "", "endv": "", "cases": [], "line": line}

    def new_block(self, ins):
        self.blocks.append({"id": len(self.blocks) + 1, "ins": ins})
        return len(self.blocks)

    # -- grammar
    def file(self):
        sects = ["world", "login"]
        n = 0
        while self.peek().k != "eof":
            if n >= len(sects):
                raise C.ToolError("parser.txt: more than two opcode switches")
            self.opcode_switch(sects[n])
            n += 1
        if n != 2:
            raise C.ToolError("parser.txt: expected a world and a login opcode switch, found %d" % n)

    def opcode_switch(self, sect):
        self.seq("switch", "(", "header_opcode", ")", "{")
        while self.at("case"):
            line = self.take("case").line
            name = self.take(k="id").v
            self.take(":")
            ins = self.stmts_until_break()
            self.progs.append({"sect": sect, "name": name, "blk": self.new_block(ins), "line": line})
        self.seq("default", ":", "break", ";", "}")

    def stmts_until_break(self):
        ins = []
        while not self.at("break"):
            ins.append(self.stmt())
        self.seq("break", ";")
        return ins

    def block(self):
        self.take("{")
        ins = []
        while not self.at("}"):
            ins.append(self.stmt())
        self.take("}")
        return self.new_block(ins)

    def args(self):
        """Comma separated argument token lists of a call; the opening parenthesis is consumed."""
        out, cur, depth = [], [], 0
        while True:
            t = self.peek()
            if t.k == "eof":
                raise C.ToolError("parser.txt: unterminated call")
            if t.v == "(":
                depth += 1
            elif t.v == ")":
                if depth == 0:
                    self.i += 1
                    break
                depth -= 1
            elif t.v == "," and depth == 0:
                out.append(cur)
                cur = []
                self.i += 1
                continue
            cur.append(t)
            self.i += 1
        if cur or out:
            out.append(cur)
        return out

    @staticmethod
    def flat(toks):
        return " ".join(t.v for t in toks)

    def cur_offset_call(self):
        self.seq("ptvcursor_current_offset", "(", "ptv", ")")

    def stmt(self):
        t = self.peek()
        line = t.line
        if t.v == "if":
            return self.if_stmt()
        if t.v == "for":
            return self.for_stmt()
        if t.v == "while":
            return self.while_stmt()
        if t.v == "switch":
            return self.pv_switch()
        if t.v == "ptvcursor_t":
            self.seq("ptvcursor_t", "*", "old_ptv", "=", "ptv", ";")
            return self.blank("saveptv", line)
        if t.v == "gint":
            self.seq("gint", "compression_end", "=", "tvb_reported_length", "(", "compressed_tvb", ")", ";")
            return self.blank("setcend", line)
        if t.k == "id" and self.peek(1).v == "=":
            return self.assign()
        if t.k == "id" and self.peek(1).v == "(":
            return self.call()
        raise C.ToolError("parser.txt line %d: unknown statement starting with %r" % (line, t.v))

    def assign(self):
        t = self.take(k="id")
        line = t.line
        self.take("=")
        if t.v == "len":
            r = self.blank("setlen", line)
            if self.at("tvb_reported_length"):
                self.seq("tvb_reported_length", "(", "compressed_tvb", ")")
                r["endv"] = "compressed_tvb_length"
            else:
                r["endv"] = self.take("offset_packet_end").v
            self.take("-")
            self.cur_offset_call()
            self.take(";")
            return r
        if t.v == "compressed_tvb":
            if self.at("NULL"):
                self.seq("NULL", ";")
                return self.blank("cnull", line)
            self.seq("tvb_uncompress", "(")
            a = [self.flat(x) for x in self.args()]
            self.take(";")
            want = ["ptvcursor_tvbuff ( ptv )", "ptvcursor_current_offset ( ptv )",
                    "offset_packet_end - ptvcursor_current_offset ( ptv )"]
            if a != want:
                raise C.ToolError("parser.txt line %d: unknown tvb_uncompress arguments %r" % (line, a))
            return self.blank("uncompress", line)
        if t.v == "ptv":
            if self.at("old_ptv"):
                self.seq("old_ptv", ";")
                return self.blank("restoreptv", line)
            self.seq("ptvcursor_new", "(")
            a = [self.flat(x) for x in self.args()]
            self.take(";")
            if a != ["wmem_packet_scope ( )", "tree", "compressed_tvb", "0"]:
                raise C.ToolError("parser.txt line %d: unknown ptvcursor_new arguments %r" % (line, a))
            return self.blank("newptv", line)
        raise C.ToolError("parser.txt line %d: unknown assignment to %r" % (line, t.v))

    def call(self):
        t = self.take(k="id")
        line = t.line
        self.take("(")
        a = self.args()
        self.take(";")
        r = None
        if t.v in ("ptvcursor_add", "ptvcursor_add_ret_uint"):
            ret = t.v.endswith("ret_uint")
            if len(a) != (5 if ret else 4) or self.flat(a[0]) != "ptv":
                raise C.ToolError("parser.txt line %d: unknown %s form" % (line, t.v))
            r = self.blank("add_ret" if ret else "add", line)
            if len(a[1]) != 1 or a[1][0].k != "id":
                raise C.ToolError("parser.txt line %d: field argument %r" % (line, self.flat(a[1])))
            r["hf"] = a[1][0].v
            if len(a[2]) != 1:
                raise C.ToolError("parser.txt line %d: length argument %r" % (line, self.flat(a[2])))
            if a[2][0].k == "num":
                r["n"] = int(a[2][0].v, 0)
            elif a[2][0].k == "id":
                r["n"] = -1
                r["nvar"] = a[2][0].v
            else:
                raise C.ToolError("parser.txt line %d: length argument %r" % (line, self.flat(a[2])))
            e = self.flat(a[3])
            if e not in ENCODINGS:
                raise C.ToolError("parser.txt line %d: unknown encoding %r" % (line, e))
            r["enc"] = ENCODINGS[e]
            if ret:
                if len(a[4]) != 2 or a[4][0].v != "&" or a[4][1].k != "id":
                    raise C.ToolError("parser.txt line %d: return argument %r" % (line, self.flat(a[4])))
                r["var"] = a[4][1].v
        elif t.v in HELPERS_HF:
            if len(a) != 2 or self.flat(a[0]) != "ptv" or len(a[1]) != 2 or a[1][0].v != "&":
                raise C.ToolError("parser.txt line %d: unknown %s form" % (line, t.v))
            r = self.blank(HELPERS_HF[t.v], line)
            r["hf"] = a[1][1].v
        elif t.v in HELPERS_NOHF:
            fl = [self.flat(x) for x in a]
            if fl not in (["ptv"], ["ptv", "pinfo"]):
                raise C.ToolError("parser.txt line %d: unknown %s form" % (line, t.v))
            r = self.blank(HELPERS_NOHF[t.v], line)
        elif t.v == "ptvcursor_add_text_with_subtree":
            fl = [self.flat(x) for x in a]
            if fl[:3] != ["ptv", "SUBTREE_UNDEFINED_LENGTH", "ett_message"] or len(fl) not in (4, 5) \
                    or a[3][0].k != "str":
                raise C.ToolError("parser.txt line %d: unknown subtree form %r" % (line, fl))
            r = self.blank("push", line)
            if len(fl) == 5:
                r["var"] = fl[4]
        elif t.v == "ptvcursor_pop_subtree":
            if [self.flat(x) for x in a] != ["ptv"]:
                raise C.ToolError("parser.txt line %d: unknown pop form" % line)
            r = self.blank("pop", line)
        elif t.v == "ptvcursor_free":
            if [self.flat(x) for x in a] != ["ptv"]:
                raise C.ToolError("parser.txt line %d: unknown free form" % line)
            r = self.blank("freeptv", line)
        else:
            raise C.ToolError("parser.txt line %d: unknown call %s" % (line, t.v))
        return r

    def condition(self):
        """Returns (ck, conds). The opening parenthesis is consumed; consumes the closing one."""
        if self.at("WOWW_SERVER_TO_CLIENT", ")") or self.at("WOW_SERVER_TO_CLIENT", ")"):
            v = self.take().v
            self.take(")")
            return "dir", [{"var": v, "cmp": "", "val": ""}]
        if self.at("len", ">", "0", ")"):
            self.seq("len", ">", "0", ")")
            return "lenpos", []
        if self.at("compressed_tvb", "!=", "NULL", ")"):
            self.seq("compressed_tvb", "!=", "NULL", ")")
            return "ctvb", []
        conds = []
        while True:
            var = self.take(k="id").v
            op = self.take().v
            if op not in ("==", "!=", "&"):
                raise C.ToolError("parser.txt line %d: unknown comparison %r" % (self.peek().line, op))
            val = self.take()
            if val.k not in ("id", "num"):
                raise C.ToolError("parser.txt line %d: unknown operand %r" % (val.line, val.v))
            conds.append({"var": var, "cmp": op, "val": val.v})
            if self.at("||"):
                self.take("||")
                continue
            self.take(")")
            return "cmp", conds

    def if_stmt(self):
        line = self.take("if").line
        r = self.blank("if", line)
        self.take("(")
        ck, conds = self.condition()
        r["arms"].append({"ck": ck, "conds": conds, "blk": self.block()})
        while self.at("else"):
            self.take("else")
            if self.at("if"):
                self.seq("if", "(")
                ck, conds = self.condition()
                r["arms"].append({"ck": ck, "conds": conds, "blk": self.block()})
            else:
                r["els"] = self.block()
                break
        return r

    def for_stmt(self):
        line = self.take("for").line
        r = self.blank("for", line)
        self.seq("(", "guint32")
        v1 = self.take(k="id").v
        self.take("=")
        start = self.take(k="num").v
        self.take(";")
        v2 = self.take(k="id").v
        self.take("<")
        b = self.take()
        self.take(";")
        self.take("++")
        v3 = self.take(k="id").v
        self.take(")")
        if int(start, 0) != 0:
            raise C.ToolError("parser.txt line %d: loop starting at %s" % (line, start))
        r["iv"] = [v1, v2, v3]
        if b.k == "num":
            r["bound"] = int(b.v, 0)
        elif b.k == "id":
            r["bound"] = -1
            r["bvar"] = b.v
        else:
            raise C.ToolError("parser.txt line %d: loop bound %r" % (line, b.v))
        r["blk"] = self.block()
        return r

    def while_stmt(self):
        line = self.take("while").line
        r = self.blank("while", line)
        self.take("(")
        self.cur_offset_call()
        self.take("<")
        r["endv"] = self.take(k="id").v
        self.take(")")
        r["blk"] = self.block()
        return r

    def pv_switch(self):
        line = self.take("switch").line
        r = self.blank("pvswitch", line)
        self.seq("(", "*", "protocol_version", ")", "{")
        while self.at("case"):
            vals = []
            while self.at("case"):
                self.take("case")
                vals.append(int(self.take(k="num").v, 0))
                self.take(":")
            ins = self.stmts_until_break()
            r["cases"].append({"vals": vals, "blk": self.new_block(ins)})
        self.take("}")
        return r


# ----------------------------------------------------------------------------------------------
# symbol tables
# ----------------------------------------------------------------------------------------------
def parse_variables(text):
    out = []
    for n, line in enumerate(text.splitlines(), 1):
        if not line.strip():
            continue
        m = re.fullmatch(r"\s*guint32 ([A-Za-z_][A-Za-z_0-9]*) = 0;", line)
        if not m:
            raise C.ToolError("variables.txt line %d: unknown declaration %r" % (n, line))
        out.append(m.group(1))
    return out


def parse_imports(text):
    out = []
    for n, line in enumerate(text.splitlines(), 1):
        if not line.strip():
            continue
        m = re.fullmatch(r"static int (hf_[A-Za-z_0-9]+);", line)
        if not m:
            raise C.ToolError("imports.txt line %d: unknown declaration %r" % (n, line))
        out.append(m.group(1))
    return out


_REG = re.compile(
    r"\{\s*&(hf_[A-Za-z_0-9]+)\s*,\s*\{\s*\"([^\"]*)\"\s*,\s*\"([^\"]*)\"\s*,\s*"
    r"(FT_[A-Z0-9]+)\s*,\s*([A-Z_0-9 |]+?)\s*,\s*(NULL|VALS\(\w+\)|VALS64\(\w+\))\s*,\s*0\s*,\s*"
    r"NULL\s*,\s*HFILL\s*\}\s*\}\s*,")


def parse_register(text):
    out = {}
    pos = 0
    body = text
    for m in _REG.finditer(body):
        if body[pos:m.start()].strip():
            raise C.ToolError("register.txt: unparsed text %r" % body[pos:m.start()].strip()[:80])
        pos = m.end()
        strings = m.group(6)
        out.setdefault(m.group(1), []).append(
            {"ft": m.group(4), "base": m.group(5), "strings": "" if strings == "NULL" else strings,
             "abbrev": m.group(3)})
    if body[pos:].strip():
        raise C.ToolError("register.txt: unparsed text %r" % body[pos:].strip()[:80])
    return out


def parse_enums(text):
    """typedef enum { NAME = [-]0xHEX, ... } e_name;  and  static const value_string e_x_strings[] = {...};"""
    toks = tokenize(text, "enums.txt")
    i = 0
    typedefs, consts, strings = {}, {}, {}

    def need(v):
        nonlocal i
        if toks[i].v != v:
            raise C.ToolError("enums.txt line %d: expected %r, found %r" % (toks[i].line, v, toks[i].v))
        i += 1

    while i < len(toks):
        if toks[i].v == "typedef":
            need("typedef")
            need("enum")
            need("{")
            names = []
            while toks[i].v != "}":
                name = toks[i]
                if name.k != "id":
                    raise C.ToolError("enums.txt line %d: enumerator name %r" % (name.line, name.v))
                i += 1
                need("=")
                neg = False
                if toks[i].v == "-":
                    neg = True
                    i += 1
                if toks[i].k != "num":
                    raise C.ToolError("enums.txt line %d: enumerator value %r" % (toks[i].line, toks[i].v))
                mag = int(toks[i].v, 0)
                i += 1
                need(",")
                names.append(name.v)
                consts.setdefault(name.v, []).append(
                    {"neg": neg, "mag": le4(mag & 0xFFFFFFFF), "wide": mag > 0xFFFFFFFF, "line": name.line})
            need("}")
            td = toks[i].v
            i += 1
            need(";")
            typedefs.setdefault(td, []).append(names)
            for nm in names:
                consts[nm][-1]["typedef"] = td
        elif toks[i].v == "static":
            need("static")
            need("const")
            kind = toks[i].v
            if kind not in ("value_string", "val64_string"):
                raise C.ToolError("enums.txt line %d: unknown table type %r" % (toks[i].line, kind))
            i += 1
            tname = toks[i].v
            i += 1
            need("[")
            need("]")
            need("=")
            need("{")
            ents = []
            while True:
                need("{")
                if toks[i].v == "0" and toks[i + 1].v == "," and toks[i + 2].v == "NULL":
                    i += 3
                    need("}")
                    break
                ents.append(toks[i].v)
                i += 1
                need(",")
                if toks[i].k != "str":
                    raise C.ToolError("enums.txt line %d: value string %r" % (toks[i].line, toks[i].v))
                i += 1
                need("}")
                need(",")
            need("}")
            need(";")
            strings.setdefault(tname, []).append({"kind": kind, "names": ents})
        else:
            raise C.ToolError("enums.txt line %d: unknown declaration starting %r" % (toks[i].line, toks[i].v))
    return typedefs, consts, strings


# ----------------------------------------------------------------------------------------------
def walk_refs(ast):
    """Lexical collection of everything parser.txt mentions: (hf names, constants, variables)."""
    hfs, consts, variables = {}, {}, {}
    for b in ast["blocks"]:
        for ins in b["ins"]:
            if ins["hf"]:
                hfs.setdefault(ins["hf"], ins["line"])
            if ins["op"] == "add_ret":
                variables.setdefault(ins["var"], ins["line"])
            if ins["nvar"] and ins["nvar"] != "len":
                variables.setdefault(ins["nvar"], ins["line"])
            if ins["bvar"]:
                variables.setdefault(ins["bvar"], ins["line"])
            for a in ins["arms"]:
                if a["ck"] == "cmp":
                    for c in a["conds"]:
                        variables.setdefault(c["var"], ins["line"])
                        consts.setdefault(c["val"], ins["line"])
    return hfs, consts, variables


def parse_dir(d):
    """Parses the five fragment files of directory d. Returns the AST dict."""
    def rd(n):
        p = os.path.join(d, n)
        if not os.path.exists(p):
            raise C.ToolError("dissector fragment missing: " + p)
        return open(p, encoding="utf-8", errors="replace").read()

    p = ParserTxt(rd("parser.txt"))
    p.file()
    variables = parse_variables(rd("variables.txt"))
    imports = parse_imports(rd("imports.txt"))
    register = parse_register(rd("register.txt"))
    typedefs, consts, strings = parse_enums(rd("enums.txt"))
    ast = {"progs": p.progs, "blocks": p.blocks, "variables": variables, "imports": imports,
           "register": register, "typedefs": typedefs, "consts": consts, "strings": strings}
    return ast


def main():
    from tools import regen
    d = sys.argv[1] if len(sys.argv) > 1 else os.path.join(regen.regen()["dir"], "wireshark")
    ast = parse_dir(d)
    hfs, consts, variables = walk_refs(ast)
    print(json.dumps({
        "programs": len(ast["progs"]), "blocks": len(ast["blocks"]),
        "instructions": sum(len(b["ins"]) for b in ast["blocks"]),
        "hf_referenced": len(hfs), "hf_imported": len(ast["imports"]), "hf_registered": len(ast["register"]),
        "consts_referenced": len(consts), "consts_declared": len(ast["consts"]),
        "variables_referenced": len(variables), "variables_declared": len(ast["variables"]),
    }, indent=1))


if __name__ == "__main__":
    main()
