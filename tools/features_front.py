"""C19 front-end: cargo features + cfg-guarded module tree of the three library crates -> JSON for TLC.
TEXT LEVEL AND APPROXIMATE (declared in notes/C19.md): there is no Rust parser here.  The source is
cleaned of comments / string / char literals, attributes are recognised by bracket matching, the
extent an attribute applies to is found by a `;` / `{..}` / `,` heuristic, and paths are resolved
through `mod` declarations, named `use`s and glob `use`s only.  Names brought in by a `use` and then
used unqualified, method calls, macro-generated items and trait resolution are NOT followed.  A
path this resolver cannot follow is counted as `unresolved` and ignored (never an alarm).
No domain logic lives here: the tool records WHAT the text says (feature tables, guard
expressions, which guarded place names which guarded thing).  Whether a configuration is closed
is decided by spec/Features.tla.
Output (dict, see `extract`):
  crates   : name -> {features: [...], implies: {f: [qualified features]}, optional_deps, ...}
  guards   : list of guard expression trees over QUALIFIED feature atoms "<crate>/<feature>"
             {"op":"feat","f":..} {"op":"any","args":[..]} {"op":"all","args":[..]}
             {"op":"not","args":[..]} {"op":"test"} {"op":"other","text":..}
  items    : list of {id, crate, kind, conds:[guard ids]}   (modules, declarations, guarded regions,
             external crates)
  refs     : list of {src: item index, path, line, alts: [{t: item index, via: [guard ids]}]}
"""
import json
import os
import re
import sys
import tomllib
CRATES = ["wow_world_base", "wow_world_messages", "wow_login_messages"]
ALWAYS_EXTERN = {"std", "core", "alloc"}
ITEM_KW = {"pub", "fn", "impl", "use", "mod", "struct", "enum", "const", "static", "type", "trait",
           "async", "unsafe", "extern", "macro_rules", "let", "union", "default"}
DECL_KW = {"fn", "struct", "enum", "const", "static", "type", "trait", "union", "macro_rules"}
# ----------------------------------------------------------------------------------------------
# Cargo.toml
# ----------------------------------------------------------------------------------------------
def read_manifest(repo, crate):
    with open(os.path.join(repo, crate, "Cargo.toml"), "rb") as f:
        t = tomllib.load(f)
    with open(os.path.join(repo, "Cargo.toml"), "rb") as f:
        ws = tomllib.load(f)
    deps = {}
    for name, spec in t.get("dependencies", {}).items():
        if isinstance(spec, str):
            spec = {"version": spec}
        if spec.get("workspace"):
            base = dict(ws.get("workspace", {}).get("dependencies", {}).get(name, {}))
            base.update({k: v for k, v in spec.items() if k != "workspace"})
            spec = base
        deps[name] = {"optional": bool(spec.get("optional", False)),
                      "path": spec.get("path"),
                      "default_features": spec.get("default-features", True),
                      "features": list(spec.get("features", []))}
    feats = {k: list(v) for k, v in t.get("features", {}).items()}
    uses_dep_syntax = {e[4:] for v in feats.values() for e in v if e.startswith("dep:")}
    # implicit features of optional dependencies (cargo reference, "Optional dependencies")
    for name, d in deps.items():
        if d["optional"] and name not in feats and name not in uses_dep_syntax:
            feats[name] = ["dep:" + name]
    implies = {}
    for f, entries in feats.items():
        out = []
        for e in entries:
            if e.startswith("dep:"):
                out.append("%s/<dep:%s>" % (crate, e[4:]))
            elif "/" in e:
                dep, df = e.split("/", 1)
                weak = dep.endswith("?")
                dep = dep.rstrip("?")
                out.append("%s/%s" % (dep, df))
                if not weak and deps.get(dep, {}).get("optional"):
                    # "dep/feat" on an optional dependency also enables the dependency
                    out.append("%s/<dep:%s>" % (crate, dep))
                    if dep in feats:
                        out.append("%s/%s" % (crate, dep))
            else:
                out.append("%s/%s" % (crate, e))
        implies[f] = out
    return {"name": crate,
            "features": sorted(k for k in feats if k != "default"),
            "default": ["%s/%s" % (crate, e) for e in feats.get("default", [])],
            "implies": {k: v for k, v in implies.items() if k != "default"},
            "deps": deps,
            "dev_deps": sorted(t.get("dev-dependencies", {}).keys())}
# ----------------------------------------------------------------------------------------------
# cleaning and tokenising Rust text
# ----------------------------------------------------------------------------------------------
def clean(src):
    """Blank out comments, string and char literals (keeping length and newlines)."""
    out = list(src)
    i, n = 0, len(src)
    def blank(a, b, keep=0):
        for k in range(a + keep, b - keep):
            if out[k] != "\n":
                out[k] = " "
    while i < n:
        c = src[i]
        if c == "/" and i + 1 < n and src[i + 1] == "/":
            j = src.find("\n", i)
            j = n if j < 0 else j
            blank(i, j)
            i = j
        elif c == "/" and i + 1 < n and src[i + 1] == "*":
            depth, j = 1, i + 2
            while j < n and depth:
                if src.startswith("/*", j):
                    depth += 1
                    j += 2
                elif src.startswith("*/", j):
                    depth -= 1
                    j += 2
                else:
                    j += 1
            blank(i, j)
            i = j
        elif c == '"' or (c in "rb" and re.match(r'(?:b?r#*"|b")', src[i:i + 8]) and
                          (i == 0 or not (src[i - 1].isalnum() or src[i - 1] == "_"))):
            m = re.match(r'b?r(#*)"', src[i:])
            if m:
                close = '"' + m.group(1)
                j = src.find(close, i + len(m.group(0)))
                j = n if j < 0 else j + len(close)
            else:
                j = i + (2 if c == "b" else 1)
                while j < n and src[j] != '"':
                    j += 2 if src[j] == "\\" else 1
                j += 1
            blank(i, j)
            out[i] = '"'
            if j - 1 < n:
                out[j - 1] = '"'
            i = j
        elif c == "'":
            m = re.match(r"'(?:\\(?:x[0-9a-fA-F]{2}|u\{[0-9a-fA-F_]+\}|.)|[^\\'])'", src[i:])
            if m:
                blank(i, i + len(m.group(0)))
                out[i] = "0"
                i += len(m.group(0))
            else:
                i += 1  # lifetime
        else:
            i += 1
    return "".join(out)
_CFG_ATOM = re.compile(r'\s*feature\s*=\s*"([^"]*)"\s*')
def parse_cfg(text, raw):
    """Parses the inside of cfg(...) from CLEANED text; string contents are taken from `raw`
    (same offsets).  Returns an unqualified guard tree."""
    pos = 0
    def ws():
        nonlocal pos
        while pos < len(text) and text[pos].isspace():
            pos += 1
    def expr():
        nonlocal pos
        ws()
        m = re.match(r"(any|all|not)\s*\(", text[pos:])
        if m:
            op = m.group(1)
            pos += len(m.group(0))
            args = []
            while True:
                ws()
                if pos < len(text) and text[pos] == ")":
                    pos += 1
                    break
                args.append(expr())
                ws()
                if pos < len(text) and text[pos] == ",":
                    pos += 1
            return {"op": op, "args": args}
        m = re.match(r'feature\s*=\s*"', text[pos:])
        if m:
            a = pos + len(m.group(0))
            b = text.index('"', a)
            pos = b + 1
            return {"op": "feat", "f": raw[a:b]}
        m = re.match(r"[A-Za-z_][A-Za-z0-9_]*", text[pos:])
        if m:
            word = m.group(0)
            pos += len(word)
            ws()
            if pos < len(text) and text[pos] == "=":
                b = text.index('"', text.index('"', pos) + 1)
                t = raw[pos:b + 1]
                pos = b + 1
                return {"op": "other", "text": word + t}
            if word == "test":
                return {"op": "test"}
            return {"op": "other", "text": word}
        raise ValueError("cannot parse cfg: %r" % raw)
    return expr()
def match_close(text, i, open_c, close_c):
    """Index just after the bracket matching text[i] == open_c."""
    depth = 0
    n = len(text)
    while i < n:
        c = text[i]
        if c == open_c:
            depth += 1
        elif c == close_c:
            depth -= 1
            if depth == 0:
                return i + 1
        i += 1
    return n
class Region:
    __slots__ = ("start", "end", "guard", "kind", "name", "children", "parent", "refs", "uses", "line",
                 "cfg_attr_spans")
    def __init__(self, start, end, guard, kind, name, line):
        self.start, self.end, self.guard, self.kind, self.name, self.line = start, end, guard, kind, name, line
        self.children, self.parent, self.refs, self.uses = [], None, [], []
        self.cfg_attr_spans = []
_WORD = re.compile(r"[A-Za-z_][A-Za-z0-9_]*")
def extent_after_attrs(text, i, end_limit):
    """The text extent an outer attribute placed before position i applies to.
    Returns (end, kind, name)."""
    n = end_limit
    while i < n and text[i].isspace():
        i += 1
    m = _WORD.match(text, i)
    first = m.group(0) if m else ""
    comma_ends = first not in ITEM_KW
    # find declaration keyword + name for named items
    kind, name = "region", None
    j = i
    for _ in range(8):
        mm = _WORD.match(text, j)
        if not mm:
            # pub(crate) etc.
            if j < n and text[j] == "(":
                j = match_close(text, j, "(", ")")
                while j < n and text[j].isspace():
                    j += 1
                continue
            break
        w = mm.group(0)
        j = mm.end()
        if w == "macro_rules":
            j = text.find("!", j) + 1
        while j < n and text[j].isspace():
            j += 1
        if w in DECL_KW or w in ("mod", "use", "impl"):
            kind = w
            if w in DECL_KW or w == "mod":
                mn = _WORD.match(text, j)
                if mn:
                    name = mn.group(0)
            break
        if w not in ("pub", "async", "unsafe", "extern", "default", "const"):
            break
    if kind == "const" and name in ("fn", "unsafe", "async"):
        # `const fn x` / `pub const unsafe fn`
        mm = re.compile(r"(?:(?:unsafe|async)\s+)*fn\s+([A-Za-z_][A-Za-z0-9_]*)").match(text, text.rfind(name, i, j + len(name) + 1))
        kind = "fn"
        name = mm.group(1) if mm else None
    depth = 0
    k = i
    while k < n:
        c = text[k]
        if c in "([":
            depth += 1
        elif c in ")]":
            if depth == 0:
                return k, kind, name     # enclosing list closes
            depth -= 1
        elif c == "{" and depth == 0:
            e = match_close(text, k, "{", "}")
            # `X => {..},` or `const A: T = T {..};` : swallow a directly following terminator
            t = e
            while t < n and text[t].isspace():
                t += 1
            if kind in ("const", "static", "type", "use", "region") and t < n and text[t] in ";,":
                if text[t] == ";" or comma_ends:
                    return t + 1, kind, name
            if kind in ("const", "static", "type") or (kind == "region" and first == "let"):
                k = e
                continue
            return e, kind, name
        elif c == "}" and depth == 0:
            return k, kind, name         # enclosing block closes
        elif c == ";" and depth == 0:
            return k + 1, kind, name
        elif c == "," and depth == 0 and comma_ends:
            return k + 1, kind, name
        k += 1
    return n, kind, name
def expand_use_tree(s):
    """`a::{b, c::{d, e as f}, *}` -> list of (segments, alias, is_glob)."""
    s = s.strip()
    out = []
    def split_top(t):
        parts, depth, cur = [], 0, []
        for ch in t:
            if ch == "{":
                depth += 1
            elif ch == "}":
                depth -= 1
            if ch == "," and depth == 0:
                parts.append("".join(cur))
                cur = []
            else:
                cur.append(ch)
        if "".join(cur).strip():
            parts.append("".join(cur))
        return parts
    def go(prefix, t):
        t = t.strip()
        if not t:
            return
        b = t.find("{")
        if b >= 0:
            head = t[:b].strip()
            if head.endswith("::"):
                head = head[:-2]
            inner = t[b + 1:t.rfind("}")]
            hp = prefix + [x.strip() for x in head.split("::") if x.strip()]
            for part in split_top(inner):
                go(hp, part)
            return
        alias = None
        m = re.match(r"(.*?)\s+as\s+(\w+)\s*$", t, re.S)
        if m:
            t, alias = m.group(1), m.group(2)
        segs = [x.strip() for x in t.split("::") if x.strip()]
        if not segs:
            return
        if segs[-1] == "*":
            out.append((prefix + segs[:-1], None, True))
        elif segs[-1] == "self":
            out.append((prefix + segs[:-1], alias, False))
        else:
            out.append((prefix + segs, alias, False))
    go([], s)
    return out
# ----------------------------------------------------------------------------------------------
# one file -> region tree
# ----------------------------------------------------------------------------------------------
class FileScan:
    def __init__(self, path, crate_info, extern_names):
        self.path = path
        with open(path, encoding="utf-8", errors="replace") as f:
            self.raw = f.read()
        self.text = clean(self.raw)
        self.extern_names = extern_names
        self.line_starts = [0]
        for m in re.finditer("\n", self.text):
            self.line_starts.append(m.end())
        self.root = Region(0, len(self.text), None, "file", None, 1)
        self.stats = {"cfg_attrs": 0, "cfg_attr_attrs": 0, "other_cfg": 0}
        self._scan()
    def line_of(self, pos):
        import bisect
        return bisect.bisect_right(self.line_starts, pos)
    def _scan(self):
        text, raw = self.text, self.raw
        n = len(text)
        regions = []
        # 1. attributes
        i = 0
        pending = []          # guards waiting for their item
        pending_from = None
        attr_spans = []
        while True:
            m = re.compile(r"#\s*(!?)\s*\[").search(text, i)
            if not m:
                break
            a = m.end() - 1
            e = match_close(text, a, "[", "]")
            inner_attr = m.group(1) == "!"
            body = text[a + 1:e - 1]
            mm = re.match(r"\s*(cfg_attr|cfg)\s*\(", body)
            attr_spans.append((m.start(), e))
            if mm and not inner_attr:
                inner_start = a + 1 + mm.end()
                inner_end = match_close(text, a + 1 + mm.end() - 1, "(", ")") - 1
                if mm.group(1) == "cfg":
                    g = parse_cfg(text[inner_start:inner_end], raw[inner_start:inner_end])
                    self.stats["cfg_attrs"] += 1
                    regions.append(("cfg", m.start(), e, g))
                else:
                    # cfg_attr(cond, attrs...) : the attrs text is a guarded region of its own
                    seg = text[inner_start:inner_end]
                    depth, cut = 0, None
                    for k, ch in enumerate(seg):
                        if ch in "([":
                            depth += 1
                        elif ch in ")]":
                            depth -= 1
                        elif ch == "," and depth == 0:
                            cut = k
                            break
                    if cut is not None:
                        g = parse_cfg(seg[:cut], raw[inner_start:inner_start + cut])
                        self.stats["cfg_attr_attrs"] += 1
                        regions.append(("cfg_attr", inner_start + cut + 1, inner_end, g))
            i = e
        # 2. build regions: consecutive cfg attributes (possibly separated by other attributes)
        #    apply to the same item
        attr_end_at = {s: e for s, e in attr_spans}
        attr_starts = sorted(attr_end_at)
        import bisect
        def skip_attrs(pos):
            while True:
                while pos < n and text[pos].isspace():
                    pos += 1
                k = bisect.bisect_left(attr_starts, pos)
                if k < len(attr_starts) and attr_starts[k] == pos:
                    pos = attr_end_at[pos]
                else:
                    return pos
        flat = []
        for kind, s, e, g in regions:
            if kind == "cfg_attr":
                flat.append(Region(s, e, g, "cfg_attr", None, self.line_of(s)))
            else:
                item_start = skip_attrs(e)
                end, k2, name = extent_after_attrs(text, item_start, n)
                flat.append(Region(s, max(end, e), g, k2, name, self.line_of(s)))
        # 3. unguarded named declarations and mod/use statements also become regions (guard None),
        #    so that names can be looked up and refs attach to the right declaration
        for m in re.finditer(r"(?m)^[ \t]*((?:pub(?:\s*\([^)]*\))?\s+)?(?:(?:async|unsafe|const|default|extern(?:\s*\"[^\"]*\")?)\s+)*"
                             r"(?:(?:fn|struct|enum|const|static|type|trait|union|mod|use|impl)\b|macro_rules\s*!))", text):
            s = m.start(1)
            end, k2, name = extent_after_attrs(text, s, n)
            flat.append(Region(s, end, None, k2, name, self.line_of(s)))
        # nest by containment
        flat.sort(key=lambda r: (r.start, -(r.end - r.start), 0 if r.guard is not None else 1))
        stack = [self.root]
        for r in flat:
            while not (stack[-1].start <= r.start and r.end <= stack[-1].end):
                if len(stack) == 1:
                    break
                stack.pop()
            top = stack[-1]
            # an unguarded declaration coinciding with a guarded region for the same item: merge
            if top is not self.root and r.guard is None and top.kind == r.kind and top.name == r.name \
                    and abs(top.end - r.end) <= 1 and not top.children:
                continue
            r.parent = top
            top.children.append(r)
            stack.append(r)
    def regions(self):
        out = []
        def walk(r):
            out.append(r)
            for c in r.children:
                walk(c)
        walk(self.root)
        return out
_PATH = re.compile(r"(?<![\w:.$])((?:crate|super|self|%s)(?:\s*::\s*[A-Za-z_][A-Za-z0-9_]*)+)")
def collect_refs(fs, extern_names):
    """Attach path references and use statements to the innermost region."""
    text = fs.text
    regs = fs.regions()
    pat = re.compile(_PATH.pattern % "|".join(sorted(re.escape(x) for x in extern_names)))
    use_pat = re.compile(r"(?<![\w])(pub(?:\s*\([^)]*\))?\s+)?use\s+([^;]*);")
    def innermost(pos):
        r = fs.root
        while True:
            for c in r.children:
                if c.start <= pos < c.end:
                    r = c
                    break
            else:
                return r
    use_spans = []
    for m in use_pat.finditer(text):
        # skip matches inside attribute text etc.
        tree = m.group(2)
        if "(" in tree or "=" in tree:
            continue
        owner = innermost(m.start(2))
        for segs, alias, glob in expand_use_tree(tree):
            if segs:
                owner.uses.append({"segs": segs, "alias": alias, "glob": glob, "pub": bool(m.group(1)),
                                   "line": fs.line_of(m.start())})
        use_spans.append((m.start(), m.end()))
    import bisect
    starts = [s for s, _ in use_spans]
    for m in pat.finditer(text):
        k = bisect.bisect_right(starts, m.start()) - 1
        if k >= 0 and use_spans[k][0] <= m.start() < use_spans[k][1]:
            continue  # handled as a use
        segs = [x.strip() for x in m.group(1).split("::")]
        innermost(m.start()).refs.append({"segs": segs, "line": fs.line_of(m.start())})
# ----------------------------------------------------------------------------------------------
# module tree
# ----------------------------------------------------------------------------------------------
class Module:
    def __init__(self, crate, path, file, region, parent):
        self.crate, self.path, self.file, self.region, self.parent = crate, path, file, region, parent
        self.children = {}     # name -> list of Module (same name may be declared under different cfgs)
        self.decls = {}        # name -> list of Region
        self.uses = []         # (region, use dict)
        self.conds = []        # list of guard trees (qualified), whole chain from crate root
    def id(self):
        return "::".join(self.path)
def chain(region):
    """Guards of `region` and its ancestors inside the file (outermost first)."""
    out = []
    r = region
    while r is not None:
        if r.guard is not None:
            out.append(r.guard)
        r = r.parent
    return out[::-1]
def qualify(g, crate):
    if g["op"] == "feat":
        return {"op": "feat", "f": "%s/%s" % (crate, g["f"])}
    if g["op"] in ("any", "all", "not"):
        return {"op": g["op"], "args": [qualify(a, crate) for a in g["args"]]}
    return dict(g)
class CrateScan:
    def __init__(self, repo, crate, manifest, all_crates):
        self.repo, self.crate, self.manifest = repo, crate, manifest
        self.src = os.path.join(repo, crate, "src")
        self.extern = {}   # rust identifier -> (dep name, optional)
        for dep, d in manifest["deps"].items():
            self.extern[dep.replace("-", "_")] = (dep, d["optional"])
        for dep in manifest["dev_deps"]:
            self.extern.setdefault(dep.replace("-", "_"), (dep, "dev"))
        self.files = {}
        self.modules = []
        self.stats = {"files": 0, "cfg_attrs": 0, "cfg_attr_attrs": 0}
        self.root = self._load_module([crate], os.path.join(self.src, "lib.rs"), None, None, [])
    def _scan(self, file):
        if file not in self.files:
            fs = FileScan(file, self.manifest, set(self.extern))
            collect_refs(fs, set(self.extern))
            self.files[file] = fs
            self.stats["files"] += 1
            self.stats["cfg_attrs"] += fs.stats["cfg_attrs"]
            self.stats["cfg_attr_attrs"] += fs.stats["cfg_attr_attrs"]
        return self.files[file]
    def _load_module(self, path, file, region, parent, conds):
        """A module whose body is a whole file (region None) or an inline `mod x { }` region."""
        mod = Module(self.crate, path, file, region, parent)
        mod.conds = conds
        self.modules.append(mod)
        fs = self._scan(file)
        body = fs.root if region is None else region
        self._populate(mod, fs, body, in_fn=False)
        return mod
    def _populate(self, mod, fs, body, in_fn):
        for r in body.children:
            if r.kind == "mod" and r.name:
                seg = fs.text[r.start:r.end]
                inline = "{" in seg
                cconds = mod.conds + [qualify(g, self.crate) for g in chain_between(r, body)]
                if inline:
                    child = Module(self.crate, mod.path + [r.name], fs.path, r, mod)
                    child.conds = cconds
                    self.modules.append(child)
                    self._populate(child, fs, r, in_fn=False)
                else:
                    d = os.path.dirname(fs.path)
                    base = os.path.basename(fs.path)
                    if base not in ("mod.rs", "lib.rs"):
                        d = os.path.join(d, base[:-3])
                    c1 = os.path.join(d, r.name + ".rs")
                    c2 = os.path.join(d, r.name, "mod.rs")
                    target = c1 if os.path.exists(c1) else c2 if os.path.exists(c2) else None
                    if target is None:
                        continue
                    child = self._load_module(mod.path + [r.name], target, None, mod, cconds)
                mod.children.setdefault(r.name, []).append(child)
                r_mod = child
                setattr(r, "_module", r_mod) if False else None
            elif r.kind in DECL_KW and r.name and not in_fn:
                mod.decls.setdefault(r.name, []).append(r)
                # declarations nested in guarded regions directly inside the module body
            elif r.kind == "region" or r.kind == "cfg_attr":
                # a guarded block at module level may contain declarations (rare); look inside
                self._populate(mod, fs, r, in_fn=True if r.kind == "cfg_attr" else in_fn)
        for u in body.uses:
            mod.uses.append((body, u))
        for r in body.children:
            if r.kind in ("use", "region") and r.kind != "mod":
                for u in r.uses:
                    mod.uses.append((r, u))
def chain_between(region, stop):
    """Guards of region and ancestors up to (not including) `stop`'s ancestors; includes guards of
    `stop` only if stop is region itself."""
    out = []
    r = region
    while r is not None and r is not stop:
        if r.guard is not None:
            out.append(r.guard)
        r = r.parent
    return out[::-1]
# ----------------------------------------------------------------------------------------------
# resolution
# ----------------------------------------------------------------------------------------------
class Interner:
    def __init__(self):
        self.guards, self.ix = [], {}

    def gid(self, g):
        k = json.dumps(g, sort_keys=True)
        if k not in self.ix:
            self.ix[k] = len(self.guards)
            self.guards.append(g)
        return self.ix[k]

    def cset(self, trees):
        return frozenset(self.gid(g) for g in trees)


def add_alt(alts, target, conds):
    """alts: dict target -> list of frozensets (kept as an antichain: a superset of an existing
    condition set adds nothing to a disjunction).  Returns True when something changed."""
    cur = alts.get(target)
    if cur is None:
        alts[target] = [conds]
        return True
    for c in cur:
        if c <= conds:
            return False
    alts[target] = [c for c in cur if not conds <= c] + [conds]
    return True


class Resolver:
    """Name resolution by fixed point over `mod`, named `use` and glob `use` (visibility ignored).
    Namespace of a module: name -> {target -> [condition sets]}; a target is ("mod", Module),
    ("decl", Module, Region) or ("extern", crate, dep, optional)."""

    def __init__(self, scans, manifests, interner, order):
        self.scans, self.manifests, self.I = scans, manifests, interner
        self.ns = {}
        self.rconds = {}
        self.mods = []
        for c in order:
            self.mods.extend(scans[c].modules)
        for m in self.mods:
            m.cset = interner.cset(m.conds)
            self.ns[id(m)] = {}
        for m in self.mods:
            ns = self.ns[id(m)]
            for name, children in m.children.items():
                for ch in children:
                    add_alt(ns.setdefault(name, {}), ("mod", ch), ch.cset)
            for name, regs in m.decls.items():
                for r in regs:
                    add_alt(ns.setdefault(name, {}), ("decl", m, r), self.conds_of_region(m, r))
        self.passes = 0
        self._fixpoint()

    def conds_of_region(self, mod, region):
        k = id(region)
        if k in self.rconds:
            return self.rconds[k]
        body = mod.region
        out = []
        r = region
        while r is not None and r is not body and r.kind != "file":
            if r.guard is not None:
                out.append(qualify(r.guard, mod.crate))
            r = r.parent
        v = mod.cset | self.I.cset(out)
        self.rconds[k] = v
        return v

    def _fixpoint(self):
        changed = True
        while changed and self.passes < 40:
            changed = False
            self.passes += 1
            for m in self.mods:
                ns = self.ns[id(m)]
                for region, u in m.uses:
                    uconds = self.conds_of_region(m, region)
                    alts = self.resolve(m, u["segs"])
                    if not alts:
                        continue
                    if u["glob"]:
                        for (tconds, t) in alts:
                            if t[0] != "mod" or t[1] is m:
                                continue
                            base = uconds | tconds
                            for name, entry in list(self.ns[id(t[1])].items()):
                                dst = ns.setdefault(name, {})
                                for t2, clist in list(entry.items()):
                                    for c2 in clist:
                                        if add_alt(dst, t2, base | c2):
                                            changed = True
                    else:
                        name = u["alias"] or u["segs"][-1]
                        if name in ("self", "crate", "super"):
                            continue
                        dst = ns.setdefault(name, {})
                        for (tconds, t) in alts:
                            if add_alt(dst, t, uconds | tconds):
                                changed = True

    def lookup(self, mod, name):
        out = []
        for t, clist in self.ns[id(mod)].get(name, {}).items():
            for c in clist:
                out.append((c, t))
        return out

    def resolve(self, mod, segs):
        """Alternatives [(conds, target)] of a path written inside `mod`; [] = unresolved;
        None = always present (std, core, alloc)."""
        segs = list(segs)
        first = segs[0]
        empty = frozenset()
        if first == "crate":
            cur = [(empty, ("mod", self.scans[mod.crate].root))]
            segs = segs[1:]
        elif first == "self":
            cur = [(empty, ("mod", mod))]
            segs = segs[1:]
        elif first == "super":
            m = mod
            while segs and segs[0] == "super":
                m = m.parent if m.parent is not None else m
                segs = segs[1:]
            cur = [(empty, ("mod", m))]
        elif first in ALWAYS_EXTERN:
            return None
        else:
            local = self.lookup(mod, first)
            if local:
                cur = local
                segs = segs[1:]
            elif first in self.scans and first != mod.crate and first in self.manifests[mod.crate]["deps"]:
                opt = self.manifests[mod.crate]["deps"][first]["optional"]
                c0 = self.I.cset([{"op": "feat", "f": "%s/<dep:%s>" % (mod.crate, first)}]) if opt else empty
                cur = [(c0, ("mod", self.scans[first].root))]
                segs = segs[1:]
            else:
                sc = self.scans[mod.crate]
                if first not in sc.extern:
                    return []
                dep, optional = sc.extern[first]
                return [(empty, ("extern", mod.crate, dep, optional))]
        for s in segs:
            nxt = {}
            for conds, t in cur:
                if t[0] != "mod":
                    add_alt(nxt, t, conds)        # Type::Variant, Type::method: stop at the type
                    continue
                for c2, t2 in self.lookup(t[1], s):
                    add_alt(nxt, t2, conds | c2)
            cur = [(c, t) for t, cl in nxt.items() for c in cl]
            if not cur:
                return []
        return cur


# ----------------------------------------------------------------------------------------------
# assembling the table
# ----------------------------------------------------------------------------------------------

def extract(repo="/repo", crates=CRATES):
    manifests = {c: read_manifest(repo, c) for c in crates}
    scans = {c: CrateScan(repo, c, manifests[c], crates) for c in crates}
    I = Interner()
    res = Resolver(scans, manifests, I, crates)

    items, item_ix = [], {}

    def item(key, make):
        if key not in item_ix:
            item_ix[key] = len(items)
            items.append(make())
        return item_ix[key]

    def relfile(p):
        return os.path.relpath(p, repo)

    def mod_item(m):
        return item(("mod", id(m)), lambda: {"id": m.id(), "crate": m.crate, "kind": "mod", "file": relfile(m.file),
                                             "conds": sorted(m.cset)})

    def region_item(m, r):
        return item(("reg", id(r)), lambda: {
            "id": m.id() + "::" + (r.name or "<%s@%d>" % (r.kind, r.line)), "crate": m.crate, "kind": r.kind,
            "file": relfile(m.file), "line": r.line, "conds": sorted(res.conds_of_region(m, r))})

    def target_item(t):
        if t[0] == "mod":
            return mod_item(t[1])
        if t[0] == "decl":
            return region_item(t[1], t[2])
        _, crate, dep, optional = t
        if optional == "dev":
            conds = [{"op": "test"}]
        elif optional:
            conds = [{"op": "feat", "f": "%s/<dep:%s>" % (crate, dep)}]
        else:
            conds = []
        return item(("extern", crate, dep), lambda: {"id": "extern crate %s (dependency of %s)" % (dep, crate),
                                                     "crate": crate, "kind": "extern", "conds": sorted(I.cset(conds))})

    refs = []
    stats = {c: dict(scans[c].stats, modules=len(scans[c].modules), refs=0, unresolved=0, always=0, uses=0)
             for c in crates}
    unresolved_samples = {c: [] for c in crates}

    def is_item_region(r):
        return r.guard is not None or (r.kind in DECL_KW and r.name)

    for c in crates:
        sc = scans[c]
        for mod in sc.modules:
            mod_item(mod)
            fs = sc.files[mod.file]
            body = fs.root if mod.region is None else mod.region
            stack = [body]
            while stack:
                region = stack.pop()
                if region is not body and region.kind == "mod" and region.name and \
                        "{" in fs.text[region.start:region.end]:
                    continue      # an inline module is a module of its own
                stack.extend(region.children)
                todo = [(r_["segs"], r_["line"], False) for r_ in region.refs] + \
                       [(u["segs"], u["line"], True) for u in region.uses]
                if not todo and not (region is not body and is_item_region(region)):
                    continue
                p = region
                while p is not body and p.kind != "file" and not is_item_region(p):
                    p = p.parent
                src = mod_item(mod) if (p is body or p.kind == "file") else region_item(mod, p)
                for segs, line, is_use in todo:
                    stats[c]["refs"] += 1
                    stats[c]["uses"] += 1 if is_use else 0
                    alts = res.resolve(mod, segs)
                    if alts is None:
                        stats[c]["always"] += 1
                        continue
                    if not alts:
                        stats[c]["unresolved"] += 1
                        if len(unresolved_samples[c]) < 60:
                            unresolved_samples[c].append("%s:%d %s" % (relfile(mod.file), line, "::".join(segs)))
                        continue
                    alt_recs = []
                    for conds, t in alts:
                        ti = target_item(t)
                        tconds = set(items[ti]["conds"])
                        alt_recs.append({"t": ti, "via": sorted(g for g in conds if g not in tconds)})
                    refs.append({"src": src, "path": "::".join(segs), "line": line, "alts": alt_recs})

    return {
        "crates": {c: {k: manifests[c][k] for k in ("name", "features", "default", "implies")} |
                   {"optional_deps": sorted(d for d, v in manifests[c]["deps"].items() if v["optional"]),
                    "deps": sorted(manifests[c]["deps"]), "documented": documented(repo, c)} for c in crates},
        "guards": I.guards,
        "items": items,
        "refs": refs,
        "stats": stats,
        "resolver_passes": res.passes,
        "unresolved_samples": unresolved_samples,
    }


# ----------------------------------------------------------------------------------------------
# documentation: which features / feature lines the crate documents
# ----------------------------------------------------------------------------------------------

def documented(repo, crate):
    """Feature names in the bullet list of the "Features" section of the crate docs (lib.rs `//!`
    lines) and the feature lists of the documented `cargo add` command lines."""
    text = []
    with open(os.path.join(repo, crate, "src", "lib.rs"), encoding="utf-8") as f:
        for line in f:
            if line.startswith("//!"):
                text.append(line[3:].strip())
    bullets, in_feat = [], False
    for l in text:
        if l.startswith("#"):
            in_feat = "feature" in l.lower()
        elif in_feat:
            m = re.match(r"\*\s+`([A-Za-z0-9_-]+)`", l)
            if m:
                bullets.append(m.group(1))
            else:
                bullets.extend(re.findall(r"`([a-z][a-z0-9_-]*)`\s+(?:and\s+`[a-z0-9_-]+`\s+)?features?", l))
                bullets.extend(re.findall(r"behind\s+`([a-z][a-z0-9_-]*)`", l))
                bullets.extend(re.findall(r"and\s+`([a-z][a-z0-9_-]*)`\s+features", l))
    cmds = []
    for l in text:
        m = re.search(r"cargo add\b.*--features\s+'([^']*)'", l)
        if m:
            cmds.append(m.group(1).split())
    seen, b2 = set(), []
    for b in bullets:
        if b not in seen:
            seen.add(b)
            b2.append(b)
    return {"features": b2, "commands": cmds}


# ----------------------------------------------------------------------------------------------
# lowering for TLC (ndjson tables, 1-based indices, reference classes)
# ----------------------------------------------------------------------------------------------

def lower(table, outdir, core=None):
    """Writes crates/implies/guards/items/refs ndjson for spec/Features.tla.
    References with identical (crate, source condition chain, alternatives' condition chains) are
    one CLASS: the spec only looks at those chains, so one representative per class (with its
    multiplicity n and an example location) is passed to TLC; the full list stays in table.json."""
    os.makedirs(outdir, exist_ok=True)
    core = core or {}
    crates = table["crates"]

    def norm(g):
        return {"op": g["op"], "f": g.get("f", g.get("text", "")), "args": [norm(a) for a in g.get("args", [])]}

    def dump(name, rows):
        p = os.path.join(outdir, name)
        with open(p, "w") as f:
            for r in rows:
                f.write(json.dumps(r, separators=(",", ":")) + "\n")
        return p

    paths = {}
    crows = []
    for c, info in crates.items():
        user = ["%s/%s" % (c, f) for f in info["features"]]
        cfeat = core.get(c)
        aux = [u for u in user if cfeat is not None and u.split("/", 1)[1] not in cfeat]
        cone = [c] + [d for d in info["deps"] if d in crates]
        docsets = []
        for cmd in info.get("documented", {}).get("commands", []):
            docsets.append(["%s/%s" % (c, f) for f in cmd if f in info["features"]])
        crows.append({"name": c, "user": user, "aux": aux, "cone": cone, "dflt": info["default"], "docsets": docsets})
    paths["FEAT_CRATES"] = dump("crates.ndjson", crows)
    irows = []
    for c, info in crates.items():
        for f, to in info["implies"].items():
            irows.append({"f": "%s/%s" % (c, f), "to": to})
    paths["FEAT_IMPLIES"] = dump("implies.ndjson", irows)
    guards = [norm(g) for g in table["guards"]] or [{"op": "true", "f": "", "args": []}]
    paths["FEAT_GUARDS"] = dump("guards.ndjson", guards)
    items = table["items"]
    # only items touched by a class representative are needed by TLC; keep indices stable by
    # renumbering the touched ones
    classes, order = {}, []
    for ri, r in enumerate(table["refs"]):
        src = items[r["src"]]
        k = (src["crate"], tuple(src["conds"]),
             tuple(sorted((tuple(items[a["t"]]["conds"]), tuple(a["via"])) for a in r["alts"])))
        if k not in classes:
            classes[k] = {"rep": ri, "n": 0}
            order.append(k)
        classes[k]["n"] += 1
    used, renum = [], {}

    def ix(i):
        if i not in renum:
            renum[i] = len(used) + 1
            used.append(i)
        return renum[i]

    rrows = []
    for k in order:
        r = table["refs"][classes[k]["rep"]]
        src = items[r["src"]]
        rrows.append({"src": ix(r["src"]), "crate": src["crate"],
                      "alts": [{"t": ix(a["t"]), "via": [g + 1 for g in a["via"]]} for a in r["alts"]],
                      "n": classes[k]["n"], "rep": classes[k]["rep"],
                      "eg": "%s:%s %s" % (src.get("file", "?"), r["line"], r["path"])})
    paths["FEAT_REFS"] = dump("refs.ndjson", rrows)
    paths["FEAT_ITEMS"] = dump("items.ndjson", [{"id": items[i]["id"], "crate": items[i]["crate"],
                                                "conds": [g + 1 for g in items[i]["conds"]]} for i in used])
    return paths, {"classes": len(rrows), "items_for_tlc": len(used)}


def main():
    repo = sys.argv[1] if len(sys.argv) > 1 else "/repo"
    t = extract(repo)
    if len(sys.argv) > 2:
        with open(sys.argv[2], "w") as f:
            json.dump(t, f)
    print(json.dumps({"stats": t["stats"], "guards": len(t["guards"]), "items": len(t["items"]),
                      "refs": len(t["refs"])}, indent=1))
    for c, s in t["unresolved_samples"].items():
        print(c, "unresolved samples:")
        for x in s[:15]:
            print("   ", x)
if __name__ == "__main__":
    main()
