"""C19 front-end: cargo features + cfg-guarded module tree of the three library crates -> JSON for TLC.

TEXT LEVEL AND APPROXIMATE (declared in notes/C19.md): there is no Rust parser here.  The source is
cleaned of comments / string / char literals, attributes are recognised by bracket matching, the
extent an attribute applies to is found by a `;` / `{..}` / `,` heuristic, and paths are resolved
through `mod` declarations, named `use`s and glob `use`s only.  Names brought in by a `use` and then
used unqualified, method calls, macro-generated items and trait resolution are NOT followed.  A
path this resolver cannot follow is counted as `unresolved` and ignored (never an alarm).

No domain logic lives here: the tool records WHAT the text says (feature tables, guard
expressions, which guarded place names which guarded thing).  Whether a configuration is closed
is decided by spec/Features.tla.

Output (dict, see `extract`):
  crates   : name -> {features: [...], implies: {f: [qualified features]}, optional_deps, ...}
  guards   : list of guard expression trees over QUALIFIED feature atoms "<crate>/<feature>"
             {"op":"feat","f":..} {"op":"any","args":[..]} {"op":"all","args":[..]}
             {"op":"not","args":[..]} {"op":"test"} {"op":"other","text":..}
  items    : list of {id, crate, kind, conds:[guard ids]}   (modules, declarations, guarded regions,
             external crates)
  refs     : list of {src: item index, path, line, alts: [{t: item index, via: [guard ids]}]}
"""
import json
import os
import re
import sys
import tomllib

CRATES = ["wow_world_base", "wow_world_messages", "wow_login_messages"]
ALWAYS_EXTERN = {"std", "core", "alloc"}
ITEM_KW = {"pub", "fn", "impl", "use", "mod", "struct", "enum", "const", "static", "type", "trait",
           "async", "unsafe", "extern", "macro_rules", "let", "union", "default"}
DECL_KW = {"fn", "struct", "enum", "const", "static", "type", "trait", "union", "macro_rules"}


# ----------------------------------------------------------------------------------------------
# Cargo.toml
# ----------------------------------------------------------------------------------------------

def read_manifest(repo, crate):
    with open(os.path.join(repo, crate, "Cargo.toml"), "rb") as f:
        t = tomllib.load(f)
    with open(os.path.join(repo, "Cargo.toml"), "rb") as f:
        ws = tomllib.load(f)
    deps = {}
    for name, spec in t.get("dependencies", {}).items():
        if isinstance(spec, str):
            spec = {"version": spec}
        if spec.get("workspace"):
            base = dict(ws.get("workspace", {}).get("dependencies", {}).get(name, {}))
            base.update({k: v for k, v in spec.items() if k != "workspace"})
            spec = base
        deps[name] = {"optional": bool(spec.get("optional", False)),
                      "path": spec.get("path"),
                      "default_features": spec.get("default-features", True),
                      "features": list(spec.get("features", []))}
    feats = {k: list(v) for k, v in t.get("features", {}).items()}
    uses_dep_syntax = {e[4:] for v in feats.values() for e in v if e.startswith("dep:")}
    # implicit features of optional dependencies (cargo reference, "Optional dependencies")
    for name, d in deps.items():
        if d["optional"] and name not in feats and name not in uses_dep_syntax:
            feats[name] = ["dep:" + name]
    implies = {}
    for f, entries in feats.items():
        out = []
        for e in entries:
            if e.startswith("dep:"):
                out.append("%s/<dep:%s>" % (crate, e[4:]))
            elif "/" in e:
                dep, df = e.split("/", 1)
                weak = dep.endswith("?")
                dep = dep.rstrip("?")
                out.append("%s/%s" % (dep, df))
                if not weak and deps.get(dep, {}).get("optional"):
                    # "dep/feat" on an optional dependency also enables the dependency
                    out.append("%s/<dep:%s>" % (crate, dep))
                    if dep in feats:
                        out.append("%s/%s" % (crate, dep))
            else:
                out.append("%s/%s" % (crate, e))
        implies[f] = out
    return {"name": crate,
            "features": sorted(k for k in feats if k != "default"),
            "default": ["%s/%s" % (crate, e) for e in feats.get("default", [])],
            "implies": {k: v for k, v in implies.items() if k != "default"},
            "deps": deps,
            "dev_deps": sorted(t.get("dev-dependencies", {}).keys())}


# ----------------------------------------------------------------------------------------------
# cleaning and tokenising Rust text
# ----------------------------------------------------------------------------------------------

def clean(src):
    """Blank out comments, string and char literals (keeping length and newlines)."""
    out = list(src)
    i, n = 0, len(src)

    def blank(a, b, keep=0):
        for k in range(a + keep, b - keep):
            if out[k] != "\n":
                out[k] = " "

    while i < n:
        c = src[i]
        if c == "/" and i + 1 < n and src[i + 1] == "/":
            j = src.find("\n", i)
            j = n if j < 0 else j
            blank(i, j)
            i = j
        elif c == "/" and i + 1 < n and src[i + 1] == "*":
            depth, j = 1, i + 2
            while j < n and depth:
                if src.startswith("/*", j):
                    depth += 1
                    j += 2
                elif src.startswith("*/", j):
                    depth -= 1
                    j += 2
                else:
                    j += 1
            blank(i, j)
            i = j
        elif c == '"' or (c in "rb" and re.match(r'(?:b?r#*"|b")', src[i:i + 8]) and
                          (i == 0 or not (src[i - 1].isalnum() or src[i - 1] == "_"))):
            m = re.match(r'b?r(#*)"', src[i:])
            if m:
                close = '"' + m.group(1)
                j = src.find(close, i + len(m.group(0)))
                j = n if j < 0 else j + len(close)
            else:
                j = i + (2 if c == "b" else 1)
                while j < n and src[j] != '"':
                    j += 2 if src[j] == "\\" else 1
                j += 1
            blank(i, j)
            out[i] = '"'
            if j - 1 < n:
                out[j - 1] = '"'
            i = j
        elif c == "'":
            m = re.match(r"'(?:\\(?:x[0-9a-fA-F]{2}|u\{[0-9a-fA-F_]+\}|.)|[^\\'])'", src[i:])
            if m:
                blank(i, i + len(m.group(0)))
                out[i] = "0"
                i += len(m.group(0))
            else:
                i += 1  # lifetime
        else:
            i += 1
    return "".join(out)


_CFG_ATOM = re.compile(r'\s*feature\s*=\s*"([^"]*)"\s*')


def parse_cfg(text, raw):
    """Parses the inside of cfg(...) from CLEANED text; string contents are taken from `raw`
    (same offsets).  Returns an unqualified guard tree."""
    pos = 0

    def ws():
        nonlocal pos
        while pos < len(text) and text[pos].isspace():
            pos += 1

    def expr():
        nonlocal pos
        ws()
        m = re.match(r"(any|all|not)\s*\(", text[pos:])
        if m:
            op = m.group(1)
            pos += len(m.group(0))
            args = []
            while True:
                ws()
                if pos < len(text) and text[pos] == ")":
                    pos += 1
                    break
                args.append(expr())
                ws()
                if pos < len(text) and text[pos] == ",":
                    pos += 1
            return {"op": op, "args": args}
        m = re.match(r'feature\s*=\s*"', text[pos:])
        if m:
            a = pos + len(m.group(0))
            b = text.index('"', a)
            pos = b + 1
            return {"op": "feat", "f": raw[a:b]}
        m = re.match(r"[A-Za-z_][A-Za-z0-9_]*", text[pos:])
        if m:
            word = m.group(0)
            pos += len(word)
            ws()
            if pos < len(text) and text[pos] == "=":
                b = text.index('"', text.index('"', pos) + 1)
                t = raw[pos:b + 1]
                pos = b + 1
                return {"op": "other", "text": word + t}
            if word == "test":
                return {"op": "test"}
            return {"op": "other", "text": word}
        raise ValueError("cannot parse cfg: %r" % raw)

    return expr()


def match_close(text, i, open_c, close_c):
    """Index just after the bracket matching text[i] == open_c."""
    depth = 0
    n = len(text)
    while i < n:
        c = text[i]
        if c == open_c:
            depth += 1
        elif c == close_c:
            depth -= 1
            if depth == 0:
                return i + 1
        i += 1
    return n


class Region:
    __slots__ = ("start", "end", "guard", "kind", "name", "children", "parent", "refs", "uses", "line",
                 "cfg_attr_spans")

    def __init__(self, start, end, guard, kind, name, line):
        self.start, self.end, self.guard, self.kind, self.name, self.line = start, end, guard, kind, name, line
        self.children, self.parent, self.refs, self.uses = [], None, [], []
        self.cfg_attr_spans = []


_WORD = re.compile(r"[A-Za-z_][A-Za-z0-9_]*")


def extent_after_attrs(text, i, end_limit):
    """The text extent an outer attribute placed before position i applies to.
    Returns (end, kind, name)."""
    n = end_limit
    while i < n and text[i].isspace():
        i += 1
    m = _WORD.match(text, i)
    first = m.group(0) if m else ""
    comma_ends = first not in ITEM_KW
    # find declaration keyword + name for named items
    kind, name = "region", None
    j = i
    for _ in range(8):
        mm = _WORD.match(text, j)
        if not mm:
            # pub(crate) etc.
            if j < n and text[j] == "(":
                j = match_close(text, j, "(", ")")
                while j < n and text[j].isspace():
                    j += 1
                continue
            break
        w = mm.group(0)
        j = mm.end()
        if w == "macro_rules":
            j = text.find("!", j) + 1
        while j < n and text[j].isspace():
            j += 1
        if w in DECL_KW or w in ("mod", "use", "impl"):
            kind = w
            if w in DECL_KW or w == "mod":
                mn = _WORD.match(text, j)
                if mn:
                    name = mn.group(0)
            break
        if w not in ("pub", "async", "unsafe", "extern", "default", "const"):
            break
    if kind == "const" and name in ("fn", "unsafe", "async"):
        # `const fn x` / `pub const unsafe fn`
        mm = re.compile(r"(?:(?:unsafe|async)\s+)*fn\s+([A-Za-z_][A-Za-z0-9_]*)").match(text, text.rfind(name, i, j + len(name) + 1))
        kind = "fn"
        name = mm.group(1) if mm else None
    depth = 0
    k = i
    while k < n:
        c = text[k]
        if c in "([":
            depth += 1
        elif c in ")]":
            if depth == 0:
                return k, kind, name     # enclosing list closes
            depth -= 1
        elif c == "{" and depth == 0:
            e = match_close(text, k, "{", "}")
            # `X => {..},` or `const A: T = T {..};` : swallow a directly following terminator
            t = e
            while t < n and text[t].isspace():
                t += 1
            if kind in ("const", "static", "type", "use", "region") and t < n and text[t] in ";,":
                if text[t] == ";" or comma_ends:
                    return t + 1, kind, name
            if kind in ("const", "static", "type") or (kind == "region" and first == "let"):
                k = e
                continue
            return e, kind, name
        elif c == "}" and depth == 0:
            return k, kind, name         # enclosing block closes
        elif c == ";" and depth == 0:
            return k + 1, kind, name
        elif c == "," and depth == 0 and comma_ends:
            return k + 1, kind, name
        k += 1
    return n, kind, name


def expand_use_tree(s):
    """`a::{b, c::{d, e as f}, *}` -> list of (segments, alias, is_glob)."""
    s = s.strip()
    out = []

    def split_top(t):
        parts, depth, cur = [], 0, []
        for ch in t:
            if ch == "{":
                depth += 1
            elif ch == "}":
                depth -= 1
            if ch == "," and depth == 0:
                parts.append("".join(cur))
                cur = []
            else:
                cur.append(ch)
        if "".join(cur).strip():
            parts.append("".join(cur))
        return parts

    def go(prefix, t):
        t = t.strip()
        if not t:
            return
        b = t.find("{")
        if b >= 0:
            head = t[:b].strip()
            if head.endswith("::"):
                head = head[:-2]
            inner = t[b + 1:t.rfind("}")]
            hp = prefix + [x.strip() for x in head.split("::") if x.strip()]
            for part in split_top(inner):
                go(hp, part)
            return
        alias = None
        m = re.match(r"(.*?)\s+as\s+(\w+)\s*$", t, re.S)
        if m:
            t, alias = m.group(1), m.group(2)
        segs = [x.strip() for x in t.split("::") if x.strip()]
        if not segs:
            return
        if segs[-1] == "*":
            out.append((prefix + segs[:-1], None, True))
        elif segs[-1] == "self":
            out.append((prefix + segs[:-1], alias, False))
        else:
            out.append((prefix + segs, alias, False))

    go([], s)
    return out


# ----------------------------------------------------------------------------------------------
# one file -> region tree
# ----------------------------------------------------------------------------------------------

class FileScan:
    def __init__(self, path, crate_info, extern_names):
        self.path = path
        with open(path, encoding="utf-8", errors="replace") as f:
            self.raw = f.read()
        self.text = clean(self.raw)
        self.extern_names = extern_names
        self.line_starts = [0]
        for m in re.finditer("\n", self.text):
            self.line_starts.append(m.end())
        self.root = Region(0, len(self.text), None, "file", None, 1)
        self.stats = {"cfg_attrs": 0, "cfg_attr_attrs": 0, "other_cfg": 0}
        self._scan()

    def line_of(self, pos):
        import bisect
        return bisect.bisect_right(self.line_starts, pos)

    def _scan(self):
        text, raw = self.text, self.raw
        n = len(text)
        regions = []
        # 1. attributes
        i = 0
        pending = []          # guards waiting for their item
        pending_from = None
        attr_spans = []
        while True:
            m = re.compile(r"#\s*(!?)\s*\[").search(text, i)
            if not m:
                break
            a = m.end() - 1
            e = match_close(text, a, "[", "]")
            inner_attr = m.group(1) == "!"
            body = text[a + 1:e - 1]
            mm = re.match(r"\s*(cfg_attr|cfg)\s*\(", body)
            attr_spans.append((m.start(), e))
            if mm and not inner_attr:
                inner_start = a + 1 + mm.end()
                inner_end = match_close(text, a + 1 + mm.end() - 1, "(", ")") - 1
                if mm.group(1) == "cfg":
                    g = parse_cfg(text[inner_start:inner_end], raw[inner_start:inner_end])
                    self.stats["cfg_attrs"] += 1
                    regions.append(("cfg", m.start(), e, g))
                else:
                    # cfg_attr(cond, attrs...) : the attrs text is a guarded region of its own
                    seg = text[inner_start:inner_end]
                    depth, cut = 0, None
                    for k, ch in enumerate(seg):
                        if ch in "([":
                            depth += 1
                        elif ch in ")]":
                            depth -= 1
                        elif ch == "," and depth == 0:
                            cut = k
                            break
                    if cut is not None:
                        g = parse_cfg(seg[:cut], raw[inner_start:inner_start + cut])
                        self.stats["cfg_attr_attrs"] += 1
                        regions.append(("cfg_attr", inner_start + cut + 1, inner_end, g))
            i = e
        # 2. build regions: consecutive cfg attributes (possibly separated by other attributes)
        #    apply to the same item
        attr_end_at = {s: e for s, e in attr_spans}
        attr_starts = sorted(attr_end_at)
        import bisect

        def skip_attrs(pos):
            while True:
                while pos < n and text[pos].isspace():
                    pos += 1
                k = bisect.bisect_left(attr_starts, pos)
                if k < len(attr_starts) and attr_starts[k] == pos:
                    pos = attr_end_at[pos]
                else:
                    return pos

        flat = []
        for kind, s, e, g in regions:
            if kind == "cfg_attr":
                flat.append(Region(s, e, g, "cfg_attr", None, self.line_of(s)))
            else:
                item_start = skip_attrs(e)
                end, k2, name = extent_after_attrs(text, item_start, n)
                flat.append(Region(s, max(end, e), g, k2, name, self.line_of(s)))
        # 3. unguarded named declarations and mod/use statements also become regions (guard None),
        #    so that names can be looked up and refs attach to the right declaration
        for m in re.finditer(r"(?m)^[ \t]*((?:pub(?:\s*\([^)]*\))?\s+)?(?:(?:async|unsafe|const|default|extern(?:\s*\"[^\"]*\")?)\s+)*"
                             r"(fn|struct|enum|const|static|type|trait|union|mod|use|impl|macro_rules!)\b)", text):
            s = m.start(1)
            end, k2, name = extent_after_attrs(text, s, n)
            flat.append(Region(s, end, None, k2, name, self.line_of(s)))
        # nest by containment
        flat.sort(key=lambda r: (r.start, -(r.end - r.start), 0 if r.guard is not None else 1))
        stack = [self.root]
        for r in flat:
            while not (stack[-1].start <= r.start and r.end <= stack[-1].end):
                if len(stack) == 1:
                    break
                stack.pop()
            top = stack[-1]
            # an unguarded declaration coinciding with a guarded region for the same item: merge
            if top is not self.root and r.guard is None and top.kind == r.kind and top.name == r.name \
                    and abs(top.end - r.end) <= 1 and not top.children:
                continue
            r.parent = top
            top.children.append(r)
            stack.append(r)

    def regions(self):
        out = []

        def walk(r):
            out.append(r)
            for c in r.children:
                walk(c)
        walk(self.root)
        return out


_PATH = re.compile(r"(?<![\w:.$])((?:crate|super|self|%s)(?:\s*::\s*[A-Za-z_][A-Za-z0-9_]*)+)")


def collect_refs(fs, extern_names):
    """Attach path references and use statements to the innermost region."""
    text = fs.text
    regs = fs.regions()
    pat = re.compile(_PATH.pattern % "|".join(sorted(re.escape(x) for x in extern_names)))
    use_pat = re.compile(r"(?<![\w])(pub(?:\s*\([^)]*\))?\s+)?use\s+([^;]*);")

    def innermost(pos):
        r = fs.root
        while True:
            for c in r.children:
                if c.start <= pos < c.end:
                    r = c
                    break
            else:
                return r

    use_spans = []
    for m in use_pat.finditer(text):
        # skip matches inside attribute text etc.
        tree = m.group(2)
        if "(" in tree or "=" in tree:
            continue
        owner = innermost(m.start(2))
        for segs, alias, glob in expand_use_tree(tree):
            if segs:
                owner.uses.append({"segs": segs, "alias": alias, "glob": glob, "pub": bool(m.group(1)),
                                   "line": fs.line_of(m.start())})
        use_spans.append((m.start(), m.end()))
    import bisect
    starts = [s for s, _ in use_spans]
    for m in pat.finditer(text):
        k = bisect.bisect_right(starts, m.start()) - 1
        if k >= 0 and use_spans[k][0] <= m.start() < use_spans[k][1]:
            continue  # handled as a use
        segs = [x.strip() for x in m.group(1).split("::")]
        innermost(m.start()).refs.append({"segs": segs, "line": fs.line_of(m.start())})


# ----------------------------------------------------------------------------------------------
# module tree
# ----------------------------------------------------------------------------------------------

class Module:
    def __init__(self, crate, path, file, region, parent):
        self.crate, self.path, self.file, self.region, self.parent = crate, path, file, region, parent
        self.children = {}     # name -> list of Module (same name may be declared under different cfgs)
        self.decls = {}        # name -> list of Region
        self.uses = []         # (region, use dict)
        self.conds = []        # list of guard trees (qualified), whole chain from crate root

    def id(self):
        return "::".join(self.path)


def chain(region):
    """Guards of `region` and its ancestors inside the file (outermost first)."""
    out = []
    r = region
    while r is not None:
        if r.guard is not None:
            out.append(r.guard)
        r = r.parent
    return out[::-1]


def qualify(g, crate):
    if g["op"] == "feat":
        return {"op": "feat", "f": "%s/%s" % (crate, g["f"])}
    if g["op"] in ("any", "all", "not"):
        return {"op": g["op"], "args": [qualify(a, crate) for a in g["args"]]}
    return dict(g)


class CrateScan:
    def __init__(self, repo, crate, manifest, all_crates):
        self.repo, self.crate, self.manifest = repo, crate, manifest
        self.src = os.path.join(repo, crate, "src")
        self.extern = {}   # rust identifier -> (dep name, optional)
        for dep, d in manifest["deps"].items():
            self.extern[dep.replace("-", "_")] = (dep, d["optional"])
        for dep in manifest["dev_deps"]:
            self.extern.setdefault(dep.replace("-", "_"), (dep, "dev"))
        self.files = {}
        self.modules = []
        self.stats = {"files": 0, "cfg_attrs": 0, "cfg_attr_attrs": 0}
        self.root = self._load_module([crate], os.path.join(self.src, "lib.rs"), None, None, [])

    def _scan(self, file):
        if file not in self.files:
            fs = FileScan(file, self.manifest, set(self.extern))
            collect_refs(fs, set(self.extern))
            self.files[file] = fs
            self.stats["files"] += 1
            self.stats["cfg_attrs"] += fs.stats["cfg_attrs"]
            self.stats["cfg_attr_attrs"] += fs.stats["cfg_attr_attrs"]
        return self.files[file]

    def _load_module(self, path, file, region, parent, conds):
        """A module whose body is a whole file (region None) or an inline `mod x { }` region."""
        mod = Module(self.crate, path, file, region, parent)
        mod.conds = conds
        self.modules.append(mod)
        fs = self._scan(file)
        body = fs.root if region is None else region
        self._populate(mod, fs, body, in_fn=False)
        return mod

    def _populate(self, mod, fs, body, in_fn):
        for r in body.children:
            if r.kind == "mod" and r.name:
                seg = fs.text[r.start:r.end]
                inline = "{" in seg
                cconds = mod.conds + [qualify(g, self.crate) for g in chain_between(r, body)]
                if inline:
                    child = Module(self.crate, mod.path + [r.name], fs.path, r, mod)
                    child.conds = cconds
                    self.modules.append(child)
                    self._populate(child, fs, r, in_fn=False)
                else:
                    d = os.path.dirname(fs.path)
                    base = os.path.basename(fs.path)
                    if base not in ("mod.rs", "lib.rs"):
                        d = os.path.join(d, base[:-3])
                    c1 = os.path.join(d, r.name + ".rs")
                    c2 = os.path.join(d, r.name, "mod.rs")
                    target = c1 if os.path.exists(c1) else c2 if os.path.exists(c2) else None
                    if target is None:
                        continue
                    child = self._load_module(mod.path + [r.name], target, None, mod, cconds)
                mod.children.setdefault(r.name, []).append(child)
                r_mod = child
                setattr(r, "_module", r_mod) if False else None
            elif r.kind in DECL_KW and r.name and not in_fn:
                mod.decls.setdefault(r.name, []).append(r)
                # declarations nested in guarded regions directly inside the module body
            elif r.kind == "region" or r.kind == "cfg_attr":
                # a guarded block at module level may contain declarations (rare); look inside
                self._populate(mod, fs, r, in_fn=True if r.kind == "cfg_attr" else in_fn)
        for u in body.uses:
            mod.uses.append((body, u))
        for r in body.children:
            if r.kind in ("use", "region") and r.kind != "mod":
                for u in r.uses:
                    mod.uses.append((r, u))


def chain_between(region, stop):
    """Guards of region and ancestors up to (not including) `stop`'s ancestors; includes guards of
    `stop` only if stop is region itself."""
    out = []
    r = region
    while r is not None and r is not stop:
        if r.guard is not None:
            out.append(r.guard)
        r = r.parent
    return out[::-1]


# ----------------------------------------------------------------------------------------------
# resolution
# ----------------------------------------------------------------------------------------------

class Resolver:
    def __init__(self, scans, manifests):
        self.scans = scans          # crate -> CrateScan
        self.manifests = manifests
        self.memo = {}
        self.active = set()
        self.cuts = 0
        self.region_conds = {}
        self.region_module = {}

    def conds_of_region(self, mod, region):
        """Full guard chain of a region that lives in module `mod`."""
        body = mod.region
        out = []
        r = region
        while r is not None and r is not body and r.kind != "file":
            if r.guard is not None:
                out.append(qualify(r.guard, mod.crate))
            r = r.parent
        return mod.conds + out[::-1]

    def lookup(self, mod, name, depth=0, seen=None):
        """Alternatives for `name` in the namespace of `mod`:
        list of (conds, kind, target) with kind in {"mod","decl","extern"}.
        Memoised; a lookup that had to cut a cycle below it is not memoised (except at top level)."""
        key = (id(mod), name)
        if key in self.memo:
            return self.memo[key]
        if key in self.active or depth > 12:
            self.cuts += 1
            return []
        self.active.add(key)
        cuts0 = self.cuts
        alts = []
        for child in mod.children.get(name, []):
            alts.append((child.conds, "mod", child))
        for r in mod.decls.get(name, []):
            alts.append((self.conds_of_region(mod, r), "decl", (mod, r)))
        for ui, (region, u) in enumerate(mod.uses):
            if u["glob"]:
                if u["segs"] == ["super"] or u["segs"] == ["self"]:
                    pass
                uconds = self.conds_of_region(mod, region)
                for tconds, tkind, t in self.resolve(mod, u["segs"], depth + 1) or []:
                    if tkind != "mod" or t is mod:
                        continue
                    for c2, k2, t2 in self.lookup(t, name, depth + 1):
                        alts.append((uconds + tconds + c2, k2, t2))
            else:
                nm = u["alias"] or u["segs"][-1]
                if nm == name and not (len(u["segs"]) == 1):
                    uconds = self.conds_of_region(mod, region)
                    for tconds, tkind, t in self.resolve(mod, u["segs"], depth + 1) or []:
                        alts.append((uconds + tconds, tkind, t))
        self.active.discard(key)
        if self.cuts == cuts0 or depth == 0:
            self.memo[key] = alts
        return alts

    def extern_alt(self, crate, ident):
        sc = self.scans[crate]
        if ident in ALWAYS_EXTERN:
            return None
        if ident in sc.extern:
            dep, optional = sc.extern[ident]
            return dep, optional
        return None

    def resolve(self, mod, segs, depth=0, seen=None):
        """Resolve a path written inside module `mod`.  Returns alternatives
        [(conds, kind, target)]; [] = unresolved; None = always-present (std etc.)."""
        segs = list(segs)
        cur = None
        first = segs[0]
        if first == "crate":
            cur = [([], "mod", self.scans[mod.crate].root)]
            segs = segs[1:]
        elif first == "self":
            cur = [([], "mod", mod)]
            segs = segs[1:]
        elif first == "super":
            m = mod
            while segs and segs[0] == "super":
                m = m.parent if m.parent is not None else m
                segs = segs[1:]
            cur = [([], "mod", m)]
        elif first in ALWAYS_EXTERN:
            return None
        else:
            # 2018 edition: a child/used name of the current module first, else an extern crate
            local = self.lookup(mod, first, depth + 1)
            if local:
                cur = local
                segs = segs[1:]
            elif first in self.scans and first != mod.crate:
                cur = [([], "xcrate", first)]
                segs = segs[1:]
            else:
                ex = self.extern_alt(mod.crate, first)
                if ex is None:
                    return []
                return [([], "extern", (mod.crate,) + ex)]
        # cross-crate root: dependency on a scanned crate
        out = []
        for conds, kind, t in cur:
            if kind == "xcrate":
                dep_optional = self.manifests[mod.crate]["deps"].get(t, {}).get("optional", False)
                c0 = [{"op": "feat", "f": "%s/<dep:%s>" % (mod.crate, t)}] if dep_optional else []
                out.append((c0, "mod", self.scans[t].root))
            else:
                out.append((conds, kind, t))
        cur = out
        for s in segs:
            nxt = []
            for conds, kind, t in cur:
                if kind != "mod":
                    nxt.append((conds, kind, t))      # Type::Variant / Type::method : stop at the type
                    continue
                for c2, k2, t2 in self.lookup(t, s, depth + 1):
                    nxt.append((conds + c2, k2, t2))
            cur = nxt
            if not cur:
                return []
        return cur


# ----------------------------------------------------------------------------------------------
# assembling the table
# ----------------------------------------------------------------------------------------------

def extract(repo="/repo", crates=CRATES):
    manifests = {c: read_manifest(repo, c) for c in crates}
    scans = {c: CrateScan(repo, c, manifests[c], crates) for c in crates}
    res = Resolver(scans, manifests)

    guards, guard_ix = [], {}

    def gid(g):
        k = json.dumps(g, sort_keys=True)
        if k not in guard_ix:
            guard_ix[k] = len(guards)
            guards.append(g)
        return guard_ix[k]

    items, item_ix = [], {}

    def item(key, rec):
        if key not in item_ix:
            item_ix[key] = len(items)
            items.append(rec)
        return item_ix[key]

    def conds_ids(conds):
        seen, out = set(), []
        for g in conds:
            i = gid(g)
            if i not in seen:
                seen.add(i)
                out.append(i)
        return out

    def relfile(p):
        return os.path.relpath(p, repo)

    def target_item(kind, t):
        if kind == "mod":
            return item(("mod", id(t)), {"id": t.id(), "crate": t.crate, "kind": "mod", "file": relfile(t.file),
                                         "conds": conds_ids(t.conds)})
        if kind == "decl":
            m, r = t
            return item(("reg", id(r)), {"id": m.id() + "::" + (r.name or "?"), "crate": m.crate, "kind": r.kind,
                                         "file": relfile(m.file), "line": r.line,
                                         "conds": conds_ids(res.conds_of_region(m, r))})
        if kind == "extern":
            crate, dep, optional = t
            if optional == "dev":
                conds = [{"op": "test"}]
            elif optional:
                conds = [{"op": "feat", "f": "%s/<dep:%s>" % (crate, dep)}]
            else:
                conds = []
            return item(("extern", crate, dep), {"id": "extern %s (dependency of %s)" % (dep, crate), "crate": crate,
                                                 "kind": "extern", "conds": conds_ids(conds)})
        raise AssertionError(kind)

    refs = []
    stats = {c: dict(scans[c].stats, modules=len(scans[c].modules), refs=0, unresolved=0, always=0, uses=0)
             for c in crates}
    unresolved_samples = {c: [] for c in crates}

    for c in crates:
        sc = scans[c]
        for mod in sc.modules:
            target_item("mod", mod)
            fs = sc.files[mod.file]
            body = fs.root if mod.region is None else mod.region

            def walk(region, owner_mod=mod, body=body):
                # nested inline modules are handled as modules of their own
                if region is not body and region.kind == "mod" and region.name and \
                        "{" in fs.text[region.start:region.end]:
                    return
                if region is body:
                    src = target_item("mod", owner_mod)
                elif region.guard is not None or (region.kind in DECL_KW and region.name):
                    src = item(("reg", id(region)),
                               {"id": owner_mod.id() + "::" + (region.name or "<%s@%d>" % (region.kind, region.line)),
                                "crate": c, "kind": region.kind, "file": relfile(owner_mod.file), "line": region.line,
                                "conds": conds_ids(res.conds_of_region(owner_mod, region))})
                else:
                    src = None
                todo = [(r_["segs"], r_["line"], False) for r_ in region.refs] + \
                       [(u["segs"], u["line"], True) for u in region.uses]
                if src is None and todo:
                    # unguarded anonymous region: attribute to nearest ancestor that is an item
                    p = region.parent
                    while p is not None and p is not body and p.guard is None and not (p.kind in DECL_KW and p.name):
                        p = p.parent
                    if p is None or p is body or p.kind == "file":
                        src = target_item("mod", owner_mod)
                    else:
                        src = item(("reg", id(p)),
                                   {"id": owner_mod.id() + "::" + (p.name or "<%s@%d>" % (p.kind, p.line)),
                                    "crate": c, "kind": p.kind, "file": relfile(owner_mod.file), "line": p.line,
                                    "conds": conds_ids(res.conds_of_region(owner_mod, p))})
                for segs, line, is_use in todo:
                    stats[c]["refs"] += 1
                    if is_use:
                        stats[c]["uses"] += 1
                    alts = res.resolve(owner_mod, segs)
                    if alts is None:
                        stats[c]["always"] += 1
                        continue
                    if not alts:
                        stats[c]["unresolved"] += 1
                        if len(unresolved_samples[c]) < 40:
                            unresolved_samples[c].append("%s:%d %s" % (relfile(owner_mod.file), line, "::".join(segs)))
                        continue
                    seen_alt, alt_recs = set(), []
                    for conds, kind, t in alts:
                        ti = target_item(kind, t)
                        # the target item's own conds are part of `conds` already; keep only what is
                        # not implied by the target item itself as `via`
                        tconds = set(items[ti]["conds"])
                        via = [g for g in conds_ids(conds) if g not in tconds]
                        k = (ti, tuple(via))
                        if k not in seen_alt:
                            seen_alt.add(k)
                            alt_recs.append({"t": ti, "via": via})
                    refs.append({"src": src, "path": "::".join(segs), "line": line, "alts": alt_recs})
                for ch in region.children:
                    walk(ch)
            walk(body)

    return {
        "crates": {c: {k: manifests[c][k] for k in ("name", "features", "default", "implies")} |
                   {"optional_deps": sorted(d for d, v in manifests[c]["deps"].items() if v["optional"]),
                    "deps": sorted(manifests[c]["deps"])} for c in crates},
        "guards": guards,
        "items": items,
        "refs": refs,
        "stats": stats,
        "unresolved_samples": unresolved_samples,
    }


def main():
    repo = sys.argv[1] if len(sys.argv) > 1 else "/repo"
    t = extract(repo)
    if len(sys.argv) > 2:
        with open(sys.argv[2], "w") as f:
            json.dump(t, f)
    print(json.dumps({"stats": t["stats"], "guards": len(t["guards"]), "items": len(t["items"]),
                      "refs": len(t["refs"])}, indent=1))
    for c, s in t["unresolved_samples"].items():
        print(c, "unresolved samples:")
        for x in s[:15]:
            print("   ", x)


if __name__ == "__main__":
    main()
