#!/bin/sh
# Prepares "fix:" commits in a CLEAN worktree of /repo's HEAD (agents keep uncommitted patches in
# /repo's working tree).  usage: fixwt.sh new | regen | test | apply "<commit message file>"
set -e
WT=/tmp/wowm-fixwt
case "$1" in
new)
  git -C /repo worktree remove --force $WT 2>/dev/null || true
  rm -rf $WT
  git -C /repo worktree add -q --detach $WT HEAD
  echo "worktree at $WT";;
regen)
  cd $WT
  RUSTFLAGS="--cfg wowm_verif --check-cfg cfg(wowm_verif)" CARGO_TARGET_DIR=/verif/.cache/gen-target-fixwt cargo build --offline -p wow_message_parser 2>&1 | tail -1
  WOWM_VERIF_WORKSPACE=$WT /verif/.cache/gen-target-fixwt/debug/wow_message_parser > /dev/null
  git checkout -- intermediate_representation.json wow_items/src/tbc/data.rs wow_items/src/vanilla/data.rs wow_items/src/wrath/data.rs wow_spells/src/tbc/data.rs wow_spells/src/vanilla/data.rs wow_spells/src/wrath/data.rs
  git status --short | head -60;;
test)
  cd $WT
  CARGO_TARGET_DIR=/verif/.cache/baseline-target cargo nextest run --workspace --no-fail-fast --tool-config-file pb:/w/lib/nextest.toml --profile pb --test-threads 8 --offline 2>&1 | grep -E "Summary|^\s+FAIL|error:" | sort -u;;
apply)
  cd $WT
  git add -A
  git diff --cached HEAD > /tmp/wowm-fix.patch
  cd /repo
  # index first (agents may have unrelated uncommitted hunks in the same files), then working tree
  git apply --cached /tmp/wowm-fix.patch
  git commit -q -F "$2"
  git apply /tmp/wowm-fix.patch
  git log --oneline | head -1
  git -C /repo worktree remove --force $WT;;
esac
