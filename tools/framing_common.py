"""Shared glue of the framing checks C02 and C05 (spec/Framing.tla, spec/TraceFraming.tla,
harness/vh/src/frames.rs).  No domain logic: it runs TLC, hands the printed records to the harness,
turns the harness' observations into trace lines and verdicts.
"""
import concurrent.futures
import json
import os
import random
import subprocess
import time

from tools import common as C
from tools import framing_pool
from tools import replay as R

ACTIONS_HIST = ["Write", "WriteEncrypted", "Read", "ReadEncrypted"]
PARTS_C02 = ["%s/%s" % (e, d) for e in ("vanilla", "tbc", "wrath") for d in ("client", "server")]
PARTS_C05 = ["vanilla", "tbc", "wrath"]


def harness_binary():
    """The shared harness built from /repo's current working tree. (FR_DEV_BIN: development only -
    a privately built binary of the same sources, used while other agents' modules do not compile.)"""
    dev = os.environ.get("FR_DEV_BIN")
    if dev:
        C.log("[framing] using development binary %s" % dev)
        return dev
    return C.build_harness("vh")


def prepare(prop):
    wd = C.workdir(prop)
    pool = framing_pool.write(os.path.join(wd, "pool.json"), C.REPO)
    return wd, pool


def _env(wd, mode, tier, mut="none", part="", extra=None):
    e = {"FR_POOL": os.path.join(wd, "pool.json"), "FR_MODE": mode, "FR_TIER": tier, "FR_MUT": mut, "FR_PART": part,
         "FR_LO": 0, "FR_HI": 0}
    if extra:
        e.update(extra)
    return e


class Explored:
    def __init__(self):
        self.states = 0
        self.transitions = 0
        self.depth = 0
        self.coverage = {}
        self.paths = []
        self.records = 0
        self.violated = []
        self.wall = 0.0


def explore(wd, prop, mode, tier, parts, mut="none", workers=3, allow_violation=False, timeout=1500, tag=None,
            cfg=None):
    """Runs Framing.tla in `mode` once per partition (in parallel); records go to files."""
    tag = tag or mode
    t0 = time.time()

    def one(part):
        path = os.path.join(wd, "%s-%s.ndjson" % (tag, part.replace("/", "-") or "all"))
        with open(path, "w") as sink:
            res = C.run_tlc("Framing", cfg=cfg, workers=workers, timeout=timeout, env=_env(wd, mode, tier, mut, part),
                            name="%s-%s-%s" % (prop, tag, part.replace("/", "-") or "all"), replay_sink=sink,
                            keep_replay_in_memory=False, allow_violation=allow_violation, xmx="3g")
        return res, path

    out = Explored()
    with concurrent.futures.ThreadPoolExecutor(max_workers=min(len(parts), 6)) as ex:
        for res, path in ex.map(one, parts):
            out.states += res.distinct
            out.transitions += res.generated
            out.depth = max(out.depth, res.depth)
            out.violated += res.violated
            for k, v in res.coverage.items():
                old = out.coverage.get(k, (0, 0))
                out.coverage[k] = (old[0] + v[0], old[1] + v[1])
            out.paths.append(path)
    out.wall = time.time() - t0
    return out


def number_records(paths, out_path, prefix, tamper=None):
    """Concatenates record files, giving every record an id. Returns count."""
    n = 0
    with open(out_path, "w") as out:
        for p in paths:
            with open(p) as f:
                for line in f:
                    line = line.strip()
                    if not line:
                        continue
                    rec = json.loads(line)
                    if rec.get("kind") != "frames":
                        continue
                    n += 1
                    rec["id"] = "%s:%d" % (prefix, n)
                    if tamper:
                        rec = tamper(n, rec)
                    out.write(json.dumps(rec, separators=(",", ":")) + "\n")
    return n


def lemma(wd, prop, hi, procs):
    """HeaderCodec over 0..hi, split over `procs` TLC processes. Returns (states, transitions, caps, n)."""
    step = (hi + procs) // procs
    ranges = [(i * step, min(hi, (i + 1) * step - 1)) for i in range(procs) if i * step <= hi]

    def one(r):
        return C.run_tlc("Framing", cfg="FramingLemma.cfg", workers=1, timeout=1500, coverage=False,
                         env=_env(wd, "lemma", "quick", extra={"FR_LO": r[0], "FR_HI": r[1]}),
                         name="%s-lemma-%d" % (prop, r[0]), xmx="2g")

    caps, st, tr = None, 0, 0
    with concurrent.futures.ThreadPoolExecutor(max_workers=len(ranges)) as ex:
        for res in ex.map(one, ranges):
            st += res.distinct
            tr += res.generated
            for rec in res.replay:
                if rec.get("kind") == "caps":
                    caps = {(c["exp"], c["dir"]): c["maxBody"] for c in rec["caps"]}
    if caps is None:
        raise C.ToolError("lemma run printed no caps record")
    return st, tr, caps, hi + 1


def make_keys(n, salt):
    rng = random.Random("%d/%s" % (C.seed(), salt))
    return [bytes(rng.randrange(256) for _ in range(40)).hex() for _ in range(n)]


def run_replay(binary, sub, records_path, keys, flavours=("sync", "tokio", "astd"), rotate=None, keys_per=None,
               jobs=8, chunk=400, timeout=1500):
    args = [sub, "replay", "--flavours", ",".join(flavours)]
    if keys:
        args += ["--keys", ",".join(keys)]
    if rotate is not None:
        args += ["--rotate", str(rotate)]
    elif keys_per is not None:
        args += ["--keys-per", str(keys_per)]
    with open(records_path) as f:
        lines = f.readlines()
    return R.run_records(binary, args, lines, chunk=chunk, jobs=jobs, timeout=timeout)


def fetch_records(records_path, ids):
    out = {}
    if not ids:
        return out
    with open(records_path) as f:
        for line in f:
            # cheap pre-filter before decoding
            if '"id":"' not in line:
                continue
            i = line.rfind('"id":"')
            rid = line[i + 6:line.index('"', i + 6)]
            if rid in ids:
                out[rid] = json.loads(line)
    return out


def observations(verdicts):
    """Harness verdict lines -> list of (obs, verdict) with flavours merged per disagreement."""
    merged = {}
    for v in verdicts:
        if v.get("verdict") in ("abort", "timeout") and "detail" in v:
            rec = v["detail"].get("record", {})
            key = (rec.get("id"), "process", 0, v["verdict"], None)
            m = (rec.get("msgs") or [{}])[0]
            merged.setdefault(key, {"v": {"id": rec.get("id"), "exp": rec.get("exp"), "crypt": rec.get("crypt"),
                                          "entry": rec.get("entry"), "op": "process", "dir": m.get("dir"),
                                          "name": m.get("name"), "body": m.get("body"), "verdict": v["verdict"],
                                          "sig": str(v["detail"].get("process"))[:200], "expected": None,
                                          "observed": None}, "fl": set()})
            continue
        key = (v.get("id"), v.get("op"), v.get("step"), v.get("verdict"), v.get("reader"))
        e = merged.setdefault(key, {"v": v, "fl": set()})
        e["fl"].add(v.get("flavour"))
    out = []
    for e in merged.values():
        v = e["v"]
        sigline = (v.get("sig") or "").split("\n")[0][:160]
        obs = {"exp": v.get("exp"), "dir": v.get("dir"), "op": v.get("op"), "verdict": v.get("verdict"),
               "body": v.get("body"), "name": v.get("name"), "crypt": v.get("crypt")}
        if v.get("reader"):
            obs["reader"] = v["reader"]
        if v.get("verdict") == "panic":
            obs["sig"] = sigline
        out.append((obs, v, sorted(x for x in e["fl"] if x)))
    return out


def report(verdicts_obj, obs_list, records_path, per_class=2):
    """Feeds observations to C.Verdicts: known findings are matched on every observation, unknown
    ones are reported with at most `per_class` witnesses per class (smallest bodies first)."""
    v = verdicts_obj
    unknown = {}
    n_known = 0
    for obs, verdict, fls in obs_list:
        if any(C._match_entry(e, v.prop, obs) for e in v.known):
            v.report(obs)
            n_known += 1
            continue
        cls = (obs.get("exp"), obs.get("dir"), obs.get("op"), obs.get("verdict"), obs.get("reader"), obs.get("name"),
               obs.get("crypt"))
        unknown.setdefault(cls, []).append((obs, verdict, fls))
    suppressed = 0
    wanted = []
    for cls, items in unknown.items():
        items.sort(key=lambda t: (t[0].get("body") or 0))
        wanted += items[:per_class]
        suppressed += max(0, len(items) - per_class)
    recs = fetch_records(records_path, {t[1].get("id") for t in wanted}) if records_path else {}
    for obs, verdict, fls in wanted:
        obs = dict(obs)
        n_cls = len(unknown[(obs.get("exp"), obs.get("dir"), obs.get("op"), obs.get("verdict"), obs.get("reader"),
                             obs.get("name"), obs.get("crypt"))])
        body = {"record": recs.get(verdict.get("id")), "verdict": verdict, "flavours": fls,
                "observations_in_class": n_cls}
        v.report(obs, replay=body)
    return {"known": n_known, "unknown_classes": len(unknown), "suppressed_witnesses": suppressed}


# ----------------------------------------------------------------------------------------------
# implementation -> specification: random sequences, observed events, TraceFraming

def _lengths(rng, cap, kind, minimum):
    r = rng.random()
    if kind == "fixed":
        return None
    marks = [m for m in (0x7FFF, 0xFFFF, cap + 6) if m - 12 <= cap]
    if r < 0.40:
        n = rng.randrange(0, 300)
    elif r < 0.70 and marks:
        n = rng.choice(marks) - rng.randrange(0, 13)
    elif r < 0.97 or cap < 100000:
        n = rng.randrange(0, min(cap, 70000) + 1)
    else:
        n = rng.randrange(0, cap + 1)
    return max(minimum, min(n, cap))


def make_requests(rng, pool, caps, count, max_msgs, both_dirs, crypt_only, keys, start_id=0, min_msgs=1,
                  cap_margin=0):
    """cap_margin: long dialogues stay `cap_margin` bytes below the largest expressible body, so that a
    single message at the very edge of the form (covered by the short sequences and by the model's
    histories) does not end a 200 message dialogue early."""
    if cap_margin:
        caps = {k: (v - cap_margin if v < 100000 else v) for k, v in caps.items()}
    reqs = []
    for i in range(count):
        exp = rng.choice(["vanilla", "tbc", "wrath"])
        crypt = True if crypt_only else rng.random() < 0.5
        dirs = ["client", "server"] if both_dirs else [rng.choice(["client", "server"])]
        n = rng.randrange(min_msgs, max_msgs + 1)
        ops, unread = [], {d: 0 for d in dirs}
        written = 0
        while written < n or any(unread.values()):
            can_read = [d for d in dirs if unread[d]]
            if written < n and (not can_read or rng.random() < 0.6):
                d = rng.choice(dirs)
                cands = [m for m in pool if m["dir"] == d and exp in m["exps"]]
                m = rng.choice(cands)
                if m["kind"] == "fixed":
                    body = m["len"]
                elif m["kind"] == "opaque":
                    # parameter = number of incompressible elements (about 9 bytes each once compressed);
                    # the observed body length is what the trace carries
                    body = rng.choice([0, 10, 1000, 3000, 3600, 3640, 3680, 5000] +
                                      ([7000, 9000] if caps[(exp, d)] > 100000 else []))
                    if rng.random() < 0.6:
                        continue
                else:
                    body = _lengths(rng, caps[(exp, d)], m["kind"], m["min"])
                ops.append({"op": "w", "dir": d, "name": m["name"], "body": body})
                unread[d] += 1
                written += 1
            else:
                d = rng.choice(can_read)
                ops.append({"op": "r", "dir": d})
                unread[d] -= 1
        reqs.append({"kind": "drive", "id": start_id + i, "exp": exp, "crypt": crypt,
                     "entry": rng.choice(["opcode", "expect", "expect_other"]),
                     "flavour": rng.choice(["sync", "tokio", "astd"]),
                     "key": keys[i % len(keys)], "ops": ops})
    return reqs


def run_drive(binary, sub, reqs, jobs=8):
    """Runs the requests (split over `jobs` processes). A request that kills the process is reported."""
    chunks = [reqs[i::jobs] for i in range(jobs) if reqs[i::jobs]]

    def one(chunk):
        data = "".join(json.dumps(r, separators=(",", ":")) + "\n" for r in chunk)
        p = subprocess.run([binary, sub, "drive"], input=data, capture_output=True, text=True, timeout=3000,
                           env=C.cargo_env())
        outs = [json.loads(l) for l in p.stdout.splitlines() if l.strip()]
        if p.returncode != 0 and len(outs) == len(chunk):
            raise C.ToolError("vh %s drive failed: %s" % (sub, p.stderr[-500:]))
        res = {o["id"]: o["events"] for o in outs}
        if len(outs) < len(chunk):
            if p.returncode in (0, 2):
                raise C.ToolError("vh %s drive failed rc=%s: %s" % (sub, p.returncode, p.stderr[-500:]))
            dead = chunk[len(outs)]
            res[dead["id"]] = [{"ev": "wfail", "op": "process", "verdict": "abort", "dir": None, "name": None,
                                "body": None, "sig": "process died rc=%s" % p.returncode}]
            rest = chunk[len(outs) + 1:]
            if rest:
                res.update(one(rest))
        return res

    events = {}
    with concurrent.futures.ThreadPoolExecutor(max_workers=len(chunks) or 1) as ex:
        for r in ex.map(one, chunks):
            events.update(r)
    return events


def to_trace(reqs, events):
    """-> (trace lines, owner of each line (request id), observations of aborted operations)."""
    lines, owner, fails = [], [], []
    for r in reqs:
        evs = events.get(r["id"])
        if evs is None:
            raise C.ToolError("no events for request %s" % r["id"])
        lines.append({"ev": "reset", "exp": r["exp"], "crypt": r["crypt"], "entry": r["entry"], "id": r["id"]})
        owner.append(r["id"])
        for e in evs:
            if e["ev"] in ("wfail", "rfail"):
                obs = {"exp": r["exp"], "dir": e.get("dir"), "op": e.get("op"), "verdict": e.get("verdict"),
                       "body": e.get("body"), "name": e.get("name"), "crypt": r["crypt"]}
                if e["ev"] == "rfail":
                    obs["reader"] = r["entry"]
                if e.get("verdict") == "panic":
                    obs["sig"] = (e.get("sig") or "").split("\n")[0][:160]
                fails.append((obs, {"id": "drive:%s" % r["id"], "request": r, "event": e}, [r["flavour"]]))
                continue
            e = dict(e)
            e.pop("sig", None)
            lines.append(e)
            owner.append(r["id"])
    return lines, owner, fails


def validate(wd, prop, lines, shards=4, mut="none"):
    """TraceFraming over the lines (sharded at reset events). -> (reject records (global line), stats)"""
    starts = [i for i, e in enumerate(lines) if e["ev"] == "reset"]
    if not starts or starts[0] != 0:
        raise C.ToolError("trace does not start with a reset event")
    per = max(1, (len(starts) + shards - 1) // shards)
    cuts = [starts[i] for i in range(0, len(starts), per)] + [len(lines)]
    jobs = []
    for s in range(len(cuts) - 1):
        path = os.path.join(wd, "trace-%d.ndjson" % s)
        with open(path, "w") as f:
            for e in lines[cuts[s]:cuts[s + 1]]:
                f.write(json.dumps(e, separators=(",", ":")) + "\n")
        jobs.append((path, cuts[s], cuts[s + 1] - cuts[s]))

    def one(job):
        path, base, n = job
        env = _env(wd, "trace", "quick", mut)
        env["TRACE"] = path
        res = C.run_tlc("TraceFraming", workers=1, timeout=1500, deque=True, xmx="3g", env=env,
                        name="%s-trace-%d" % (prop, base), allow_violation=True)
        consumed = res.depth - 1 if res.depth else 0
        return res, base, n, consumed

    rejects, st, tr, incomplete = [], 0, 0, []
    with concurrent.futures.ThreadPoolExecutor(max_workers=len(jobs)) as ex:
        for res, base, n, consumed in ex.map(one, jobs):
            st += res.distinct
            tr += res.generated
            real_errors = [e for e in res.errors if "Postcondition" not in e and "TraceAccepted" not in e]
            if real_errors and not res.violated and consumed == n:
                raise C.ToolError("trace validation failed: %s (%s)" % (real_errors[:2], res.log_path))
            for r in res.replay:
                if r.get("kind") == "reject":
                    r = dict(r)
                    r["line"] = base + r["line"] - 1
                    rejects.append(r)
            if consumed != n or res.violated:
                incomplete.append({"base": base, "lines": n, "consumed": consumed, "violated": res.violated,
                                   "log": res.log_path})
    return rejects, incomplete, {"states": st, "transitions": tr, "lines": len(lines)}


def impl_to_spec(wd, prop, binary, sub, pool, caps, count, max_msgs, both_dirs, crypt_only, nkeys, tamper=None,
                 long_dialogues=0, long_len=0):
    rng = random.Random("%d/%s/drive" % (C.seed(), prop))
    keys = make_keys(nkeys, prop + "/drive")
    reqs = make_requests(rng, pool, caps, count, max_msgs, both_dirs, crypt_only, keys)
    if long_dialogues:
        reqs += make_requests(rng, pool, caps, long_dialogues, long_len, True, True, keys, start_id=len(reqs),
                              min_msgs=max(1, (long_len * 3) // 4), cap_margin=6)
    t0 = time.time()
    events = run_drive(binary, sub, reqs)
    lines, owner, fails = to_trace(reqs, events)
    if tamper:
        lines, owner = tamper(lines, owner)
    rejects, incomplete, stats = validate(wd, prop, lines)
    by_id = {r["id"]: r for r in reqs}
    # an aborted operation in a connection that already contains a rejected event is a consequence of
    # that event (e.g. a reader fed the malformed frame), not a separate observation
    rejected_reqs = {owner[rj["line"]] for rj in rejects}
    obs = [f for f in fails if f[1]["request"]["id"] not in rejected_reqs]
    for rj in rejects:
        e = lines[rj["line"]]
        r = by_id[owner[rj["line"]]]
        o = {"exp": r["exp"], "dir": e.get("dir"), "op": "trace:" + e["ev"], "verdict": "rejected", "body": e.get("body"),
             "name": e.get("name"), "crypt": r["crypt"], "reader": r["entry"]}
        obs.append((o, {"id": "drive:%s" % r["id"], "request": r, "rejected_event": e, "events": events[r["id"]]},
                    [r["flavour"]]))
    stats.update({"requests": len(reqs), "wall": round(time.time() - t0, 1), "rejects": len(rejects),
                  "aborted_ops": len(fails), "incomplete": incomplete,
                  "messages": sum(1 for e in lines if e["ev"] == "wframe"),
                  "longest_dialogue": max(sum(1 for o in r["ops"] if o["op"] == "w") for r in reqs),
                  "sample": lines[:4]})
    return obs, stats
