"""Message pool for the framing checks (C02, C05).

The framing model (spec/Framing.tla) needs a handful of real world messages whose body length is
known from their wowm definition: messages with an empty body, messages made of fixed-width scalars
only, and messages with a free body length (`u8[-]`, or `u32 n; CString[n]`).  This tool looks the
named messages up in the object table of the independent front-end (tools/wowm_front.py), takes
opcode and versions from the wowm text, and derives the *shape* of the body from the member list
with the scalar widths of wowm_language/src/spec/lang-spec.md.  Nothing is taken from the
generator or the generated Rust.

Output: one JSON array (read by TLC through JsonDeserialize), each element
  {"name", "dir": "client|server", "exps": ["vanilla",..], "opcode": int,
   "kind": "fixed|free|strs|opaque", "len": int (fixed), "min": int (smallest body), "cap": int}
`cap` is the largest body the repository's readers are known to *accept* for that message as a
matter of policy (DESIGN C02 Guards): an endless `u8` array is capped at 0xFFFF elements by the
generated size guard; beyond the cap a reader may answer InvalidSize but still has to consume the
frame.  The cap never makes the model demand more, it only relaxes the expected outcome.
"""
import json

from tools import wowm_front

# names are fixed: the harness (harness/vh/src/frames.rs) constructs exactly these messages
POOL_NAMES = [
    "CMSG_CHAR_ENUM", "CMSG_PLAYER_LOGIN", "CMSG_WARDEN_DATA",
    "SMSG_PONG", "SMSG_WARDEN_DATA", "SMSG_MOTD", "SMSG_LOGOUT_COMPLETE",
    "SMSG_COMPRESSED_UPDATE_OBJECT",
]

EXP_VERSION = {"vanilla": (1, 12), "tbc": (2, 4, 3), "wrath": (3, 3, 5)}

# lang-spec.md: widths of the fixed-width scalar types (bytes)
WIDTH = {"u8": 1, "u16": 2, "u32": 4, "u64": 8, "i8": 1, "i16": 2, "i32": 4, "i64": 8, "f32": 4,
         "Bool": 1, "Bool32": 4, "Guid": 8, "Gold": 4, "Level": 1, "Level16": 2, "Level32": 4,
         "Seconds": 4, "Milliseconds": 4, "Spell": 4, "Spell16": 2, "Item": 4, "DateTime": 4,
         "IpAddress": 4}

ENDLESS_U8_CAP = 0xFFFF


def _covers(pattern, version):
    if pattern == "*":
        return True
    p = tuple(int(x) for x in pattern.split("."))
    return version[:len(p)] == p


def _exps(obj):
    pats = []
    for tag in ("versions", "paste_versions"):
        for v in obj.get("tags", {}).get(tag, []):
            pats.extend(v.split())
    return [e for e, ver in EXP_VERSION.items() if any(_covers(p, ver) for p in pats)]


def _shape(members, tags=None):
    if "true" in (tags or {}).get("compressed", []):
        # body = u32 decompressed size + zlib stream: its length is not a function of the definition.
        # Used by the random driver only; the observed body length is what the model is asked about.
        return {"kind": "opaque", "len": 0, "min": 0, "cap": 0xFFFFFF}
    if all(m["m"] == "decl" and m["array"] is None and m["type"] in WIDTH and not m["upcast"] for m in members):
        n = sum(WIDTH[m["type"]] for m in members)
        return {"kind": "fixed", "len": n, "min": n, "cap": n}
    if len(members) == 1 and members[0]["m"] == "decl" and members[0]["type"] == "u8" and \
            (members[0]["array"] or {}).get("size") == "endless":
        return {"kind": "free", "len": 0, "min": 0, "cap": ENDLESS_U8_CAP}
    if len(members) == 2 and members[0]["type"] == "u32" and members[0]["array"] is None and \
            members[1]["type"] == "CString" and (members[1]["array"] or {}).get("field") == members[0]["name"]:
        return {"kind": "strs", "len": 0, "min": 4, "cap": 0xFFFFFF}
    return None


def build(repo="/repo"):
    corpus = wowm_front.load_corpus(repo)
    out = []
    for o in corpus:
        if o.get("corpus") != "world" or o.get("kind") not in ("cmsg", "smsg") or o["name"] not in POOL_NAMES:
            continue
        exps = _exps(o)
        if not exps:
            continue
        sh = _shape(o["members"], o.get("tags"))
        if sh is None:
            continue
        e = {"name": o["name"], "dir": "client" if o["kind"] == "cmsg" else "server", "exps": exps,
             "opcode": int(o["opcode"], 16) if o["opcode"].lower().startswith("0x") else int(o["opcode"])}
        e.update(sh)
        out.append(e)
    missing = set(POOL_NAMES) - {e["name"] for e in out}
    if missing:
        raise RuntimeError("pool messages not found / not usable in the wowm corpus: %s" % sorted(missing))
    out.sort(key=lambda e: (e["dir"], e["name"], e["exps"]))
    return out


def write(path, repo="/repo"):
    pool = build(repo)
    with open(path, "w") as f:
        json.dump(pool, f)
    return pool


if __name__ == "__main__":
    print(json.dumps(build(), indent=1))
