"""Generates the typed entry points `vh chunks` needs (C06): for every login protocol version and
direction the three opcode-enum readers, a per-variant match for the three writers (the enum's own
writer is crate-private), the three typed `expect_*_message` helpers per message and
`read_initial_message`; for every world expansion and direction the three `*_read_unencrypted`
readers, the three `*_write_unencrypted_*` writers and the typed expect helpers for a short list of
message names.

Names come from the FRONT-END's object table (login) and from the model's behaviour records
(world: `world_typed`, chosen by tools/checks/c06.py); nothing is copied from the generator.

Output: harness/vh/src/generated/chunks_gen.rs   (python3 -m tools.gen_chunks writes it with the
default world list)
"""
import os

from tools import common as C
from tools import gen_dispatch as G
from tools import wowm_front as F

EXPANSIONS = ["vanilla", "tbc", "wrath"]
DEFAULT_WORLD_TYPED = {(e, d): [("CMSG" if d == "client" else "SMSG") + "_WARDEN_DATA"]
                       for e in EXPANSIONS for d in ("client", "server")}


def _login(s, corpus):
    for v in G.LOGIN_VERSIONS:
        msgs = G.login_messages(corpus, v)
        for d in ("client", "server"):
            enum = "ClientOpcodeMessage" if d == "client" else "ServerOpcodeMessage"
            s.append("pub mod login_v%d_%s {" % (v, d))
            s.append("    use super::*;")
            s.append("    use wow_login_messages::all::*;")
            s.append("    use wow_login_messages::version_%d::*;" % v)
            s.append("    use wow_login_messages::version_%d::opcodes::%s as E;" % (v, enum))
            s.append("    use wow_login_messages::helper::*;")
            s.append("    pub fn run(cx: &mut Cx) {")
            s.append("        drive_read(cx, \"enum_read\", eq_pe::<E>,")
            s.append("            |d| sync_out(d, |c| E::read(c), sig_login),")
            s.append("            |d, s, f| async_out(d, s, f, |h| E::tokio_read(h), sig_login),")
            s.append("            |d, s, f| async_out(d, s, f, |h| E::astd_read(h), sig_login));")
            s.append("        let m = match guarded(|| E::read(std::io::Cursor::new(cx.bytes))) { Ok(Ok(m)) => m, _ => return };")
            s.append("        match &m {")
            for o in msgs[d]:
                var = G.variant_name(o["name"])
                if len(o["members"]) == 0:
                    s.append("            E::%s => login_writes(cx, &%s::default())," % (var, o["name"]))
                else:
                    s.append("            E::%s(x) => login_writes(cx, x)," % var)
            s.append("        }")
            s.append("        match cx.name {")
            helper = "expect_client_message" if d == "client" else "expect_server_message"
            for o in msgs[d]:
                n = o["name"]
                s.append("            \"%s\" => drive_read(cx, \"expect\", eq_pe::<%s>," % (n, n))
                s.append("                |d| sync_out(d, |c| %s::<%s, _>(c), sig_login)," % (helper, n))
                s.append("                |d, s, f| async_out(d, s, f, |h| tokio_%s::<%s, _>(h), sig_login)," % (helper, n))
                s.append("                |d, s, f| async_out(d, s, f, |h| astd_%s::<%s, _>(h), sig_login))," % (helper, n))
            s.append("            _ => cx.missing(\"expect\"),")
            s.append("        }")
            # a helper typed for ANOTHER message must refuse this one identically in all variants
            other = msgs[d][0]["name"]
            s.append("        if cx.name != \"%s\" {" % other)
            s.append("            drive_read(cx, \"expect_other\", eq_pe::<%s>," % other)
            s.append("                |d| sync_out(d, |c| %s::<%s, _>(c), sig_login)," % (helper, other))
            s.append("                |d, s, f| async_out(d, s, f, |h| tokio_%s::<%s, _>(h), sig_login)," % (helper, other))
            s.append("                |d, s, f| async_out(d, s, f, |h| astd_%s::<%s, _>(h), sig_login));" % (helper, other))
            s.append("        }")
            # the protocol-parameterised reader of the collective (version 8) opcode enum
            s.append("        {")
            s.append("            use wow_login_messages::version_8::opcodes::%s as E8;" % enum)
            s.append("            let pv = ProtocolVersion::try_from(%du8).unwrap();" % v)
            s.append("            drive_read(cx, \"enum_read_protocol\", eq_pe::<E8>,")
            s.append("                |d| sync_out(d, |c| E8::read_protocol(c, pv), sig_login),")
            s.append("                |d, s, f| async_out(d, s, f, |h| E8::tokio_read_protocol(h, pv), sig_login),")
            s.append("                |d, s, f| async_out(d, s, f, |h| E8::astd_read_protocol(h, pv), sig_login));")
            s.append("        }")
            if d == "client":
                s.append("        drive_read(cx, \"initial\", eq_dbg::<InitialMessage>,")
                s.append("            |d| sync_out(d, |c| read_initial_message(c), sig_login),")
                s.append("            |d, s, f| async_out(d, s, f, |h| tokio_read_initial_message(h), sig_login),")
                s.append("            |d, s, f| async_out(d, s, f, |h| astd_read_initial_message(h), sig_login));")
            s.append("    }")
            s.append("}")
            s.append("")


def _world(s, world_typed):
    for e in EXPANSIONS:
        for d in ("client", "server"):
            enum = "ClientOpcodeMessage" if d == "client" else "ServerOpcodeMessage"
            s.append("pub mod world_%s_%s {" % (e, d))
            s.append("    use super::*;")
            s.append("    use wow_world_messages::%s::*;" % e)
            s.append("    use wow_world_messages::%s::opcodes::%s as E;" % (e, enum))
            s.append("    pub fn run(cx: &mut Cx) {")
            s.append("        drive_read(cx, \"enum_read\", eq_pe::<E>,")
            s.append("            |d| sync_out(d, |c| E::read_unencrypted(c), sig_world),")
            s.append("            |d, s, f| async_out(d, s, f, |h| E::tokio_read_unencrypted(h), sig_world),")
            s.append("            |d, s, f| async_out(d, s, f, |h| E::astd_read_unencrypted(h), sig_world));")
            s.append("        if let Ok(Ok(m)) = guarded(|| E::read_unencrypted(std::io::Cursor::new(cx.bytes))) {")
            s.append("            drive_write(cx, \"enum_write\",")
            s.append("                |w| m.write_unencrypted_%s(w)," % d)
            s.append("                |w| m.tokio_write_unencrypted_%s(w)," % d)
            s.append("                |w| m.astd_write_unencrypted_%s(w));" % d)
            # the encrypting writers: a fresh cipher half from one fixed session key per run, so the
            # three variants must emit the same bytes whatever the sink accepts per call
            half = "halves!(%s_header).%d" % (e, 0 if d == "client" else 1)
            s.append("            let m = &m;")
            s.append("            drive_write(cx, \"enum_write_encrypted\",")
            s.append("                |w| { let mut h = %s; m.write_encrypted_%s(w, &mut h) }," % (half, d))
            s.append("                |w| async move { let mut h = %s; m.tokio_write_encrypted_%s(w, &mut h).await }," % (half, d))
            s.append("                |w| async move { let mut h = %s; m.astd_write_encrypted_%s(w, &mut h).await });" % (half, d))
            s.append("        }")
            helper = "expect_client_message" if d == "client" else "expect_server_message"
            names = world_typed.get((e, d), [])
            s.append("        match cx.name {")
            for n in names:
                s.append("            \"%s\" => {" % n)
                s.append("                drive_read(cx, \"expect\", eq_pe::<%s>," % n)
                s.append("                    |d| sync_out(d, |c| %s::<%s, _>(c), sig_world)," % (helper, n))
                s.append("                    |d, s, f| async_out(d, s, f, |mut h| async move { tokio_%s::<%s, _>(&mut h).await }, sig_world)," % (helper, n))
                s.append("                    |d, s, f| async_out(d, s, f, |mut h| async move { astd_%s::<%s, _>(&mut h).await }, sig_world));" % (helper, n))
                s.append("                if let Ok(Ok(m)) = guarded(|| %s::<%s, _>(&mut std::io::Cursor::new(cx.bytes))) {" % (helper, n))
                s.append("                    drive_write(cx, \"typed_write\",")
                s.append("                        |w| m.write_unencrypted_%s(w)," % d)
                s.append("                        |w| m.tokio_write_unencrypted_%s(w)," % d)
                s.append("                        |w| m.astd_write_unencrypted_%s(w));" % d)
                s.append("                }")
                s.append("            }")
            if names:
                other = names[0]
                s.append("            _ => drive_read(cx, \"expect_other\", eq_pe::<%s>," % other)
                s.append("                |d| sync_out(d, |c| %s::<%s, _>(c), sig_world)," % (helper, other))
                s.append("                |d, s, f| async_out(d, s, f, |mut h| async move { tokio_%s::<%s, _>(&mut h).await }, sig_world)," % (helper, other))
                s.append("                |d, s, f| async_out(d, s, f, |mut h| async move { astd_%s::<%s, _>(&mut h).await }, sig_world))," % (helper, other))
            else:
                s.append("            _ => {}")
            s.append("        }")
            s.append("    }")
            s.append("}")
            s.append("")


def generate(corpus, world_typed):
    s = []
    s.append("// @generated by tools/gen_chunks.py (login: front-end object table; world: names of model records). Do not edit.")
    s.append("#![allow(non_snake_case, unused_imports, clippy::all)]")
    s.append("use crate::chunks::{async_out, drive_read, drive_write, eq_dbg, eq_pe, login_writes, sig_login, sig_world, sync_out, Cx};")
    s.append("use crate::util::guarded;")
    s.append("")
    s.append("/// (client encrypter, server encrypter) of one fixed session key, built through the public handshake")
    s.append("macro_rules! halves {")
    s.append("    ($srp:ident) => {{")
    s.append("        use wow_srp::normalized_string::NormalizedString;")
    s.append("        use wow_srp::$srp::ProofSeed;")
    s.append("        let user = NormalizedString::new(\"VERIF\").unwrap();")
    s.append("        let key = [7u8; 40];")
    s.append("        let (server_seed, client_seed) = (ProofSeed::new(), ProofSeed::new());")
    s.append("        let (ss, cs) = (server_seed.seed(), client_seed.seed());")
    s.append("        let (proof, client) = client_seed.into_client_header_crypto(&user, key, ss);")
    s.append("        let server = server_seed.into_server_header_crypto(&user, key, proof, cs).unwrap();")
    s.append("        let (ce, _cd) = client.split();")
    s.append("        let (se, _sd) = server.split();")
    s.append("        (ce, se)")
    s.append("    }};")
    s.append("}")
    s.append("")
    _login(s, corpus)
    _world(s, world_typed)
    s.append("pub fn dispatch(exp: &str, lv: u64, dir: &str, cx: &mut Cx) -> bool {")
    s.append("    match (exp, lv, dir) {")
    for v in G.LOGIN_VERSIONS:
        for d in ("client", "server"):
            s.append("        (\"login\", %d, \"%s\") => login_v%d_%s::run(cx)," % (v, d, v, d))
    for e in EXPANSIONS:
        for d in ("client", "server"):
            s.append("        (\"%s\", _, \"%s\") => world_%s_%s::run(cx)," % (e, d, e, d))
    s.append("        _ => return false,")
    s.append("    }")
    s.append("    true")
    s.append("}")
    return "\n".join(s) + "\n"


def main(world_typed=None):
    corpus = F.load_corpus(C.REPO)
    text = generate(corpus, world_typed or DEFAULT_WORLD_TYPED)
    d = os.path.join(C.HARNESS, "vh", "src", "generated")
    os.makedirs(d, exist_ok=True)
    p = os.path.join(d, "chunks_gen.rs")
    old = open(p).read() if os.path.exists(p) else None
    if old != text:
        with open(p, "w") as f:
            f.write(text)
    return p


if __name__ == "__main__":
    print(main())
