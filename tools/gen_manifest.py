#!/usr/bin/env python3
"""Writes /verif/MANIFEST.json from the table below (single source of truth for what is claimed)."""
import json
import os

HERE = os.path.dirname(os.path.dirname(os.path.abspath(__file__)))

CHECKS = {
    "C15": dict(
        category="model_checking",
        text="spec/DateTime.tla (calendar walk + clock walk) is model checked exhaustively (95,550 states, invariants tying the walked weekday to an independently counted day number); the 5,120 records it prints are the complete truth table of the property and all 2^32 values are executed against DateTime::try_from, as_int and every accessor in both tiers. Exhaustive over the property's whole quantifier.",
        design_ref="DESIGN.md section 5, C15",
        note="Trusted: the TLA+ calendar (Gregorian rule, Saturday 2000-01-01, cross-checked by two definitions inside TLC), the bit-field extraction in the harness, TLC.",
        technique="TLA+ spec model-checked with TLC; spec-generated truth table replayed exhaustively (2^32 values) into the real code",
    ),
}

CHECKS["C01"] = dict(
    category="model_checking",
    text="spec/WowmWire.tla - the wire meaning of a wowm container as an explicit state machine (one action per member: emit primitive/enum/flag, take if/else-if/else arm, enter/leave struct, array begin/next/end, optional tail, built-in types from WowmTypes.tla) - is run by TLC over every message of the corpus as parsed by an independent front-end (all expansions, protocol versions, directions; ~600k states quick). Every terminal behaviour (a canonical encoding with its header) is replayed into the real public readers/writers (opcode enums), checking variant, exact consumption, byte-identical re-encoding and a second decode/encode cycle; compressed payloads are compared after inflation. Coverage is every control path of every definition within the stated bounds (array lengths 0..2/3, later array elements deterministic, values by profile rotation), not every value.",
    design_ref="DESIGN.md section 4.2, 5 C01",
    note="Trusted: tools/wowm_front.py + lower.py (syntactic), the TLA+ transcription of lang-spec.md/types/*.md, TLC, harness glue for zlib/size field. Known findings (genuine defects that cannot be repaired without editing golden tests, or not attempted) are listed in known_findings.jsonl and printed as KNOWN-FINDING lines.",
    technique="TLA+ wire-walker spec explored with TLC per corpus message; spec->impl replay of every behaviour into the real codecs",
)
CHECKS["C20"] = dict(
    category="model_checking",
    text="spec/Geometry.tla (exact integer model of the rotated-box / circle / distance definition: Pythagorean-triple yaws, probe walks around every face, edge and corner, all 949 table triggers) model checked by TLC with 11 invariants (FrameInverts, RotationPreservesDist2, CoRotationInvariant, ...); every state is replayed into is_within_square, is_within_distance, distance_between, distance_2d, AreaTrigger::contains (3 expansions) and verify_trigger incl. wrong-map and unknown-id variants; quick 160k states / records, thorough 3.8M.",
    design_ref="DESIGN.md section 5 C20, notes/C20.md",
    note="Trusted: the reading of the definition (box frame = translate, rotate by -yaw), harness yaw = atan2 and placement of table offsets (inverse map), probe margins >= 1/32 yard so float rounding cannot flip a verdict (float accuracy itself is not claimed), the table-text parser.",
    technique="TLA+ spec model-checked with TLC; every explored state replayed into the real geometry/trigger functions",
)

CHECKS["C13"] = dict(
    category="model_checking",
    text="spec/UpdateMask.tla (header / dirty / values machine with New, Set, DirtyReset, MarkFullyDirty, Write, Read) is model checked per object kind (TypeOK, WireForm, SizeIsLen, ReadWritten, GetAfterSet) exhaustively to depth 6 (quick) / 8 (thorough) over a representative accessor set; every (state, operation) pair of the explored graph is replayed on the real typed masks of all 7 kinds x 3 expansions (getters, dirty bits, SMSG_UPDATE_OBJECT frame, declared size, read-back through the opcode reader); all 2,456 generated setters (every index) and seeded random operation sequences are recorded from the real code and validated by TraceUpdateMask.tla against the published field table.",
    design_ref="DESIGN.md section 5 C13, notes/C13.md",
    note="Trusted: tools/gen_mask.py (markdown table / doc page parsing, name normalisation, Rust signature scan), the lane convention of harness/vh/src/mask.rs, Guid and definer conversions (C11), TLC + Json/IOUtils modules. Observations outside the property (getter unwrap after a half-present GUID, is_bit_dirty beyond owned blocks) are recorded in the evidence, not raised.",
    technique="TLA+ spec + TLC; spec->impl replay of every transition; impl->spec trace validation of all generated accessors and random operation sequences",
)

CHECKS["C08"] = dict(
    category="model_checking",
    text="spec/GenTree.tla (generator process over a tree of generated paths, 7 path classes x 5 content states, kills and reruns) is model checked on a 13-path universe for every start tree with <= 3 (quick) / <= 5 (thorough) perturbed paths and <= 2 kills: Idempotent, Converges, NoForeignRemoval, NoIdleWrite, Progress. The real generator, rebuilt from /repo, is run on scratch copies from the pristine tree (twice), from TLC's single-file start states mapped to concrete files, and killed at mutation numbers drawn from every stage (plain and half-written) then rerun; each file-operation trace (5.6-16k events) is accepted by TraceGenTree.tla and each final tree equals /repo byte for byte. The hash-seed/thread-timing clause is plain repetition (3 / 20 pristine processes), not a model-checking result.",
    design_ref="DESIGN.md section 5 C08, notes/C08.md",
    note="Trusted: the path abstraction in tools/checks/c08.py (directory/name -> class), hook H2 reporting every file operation of file_utils, the byte comparison against /repo's working tree minus the 7 blobs the sandbox emptied, TLC. Kills are injected before / half way through mutating operations only. base_printer outputs (need an external database) are not exercised. States that destroy hand-written text are outside the quantifier.",
    technique="TLA+ spec model-checked with TLC; recorded generator file-operation traces validated against the spec with TLC; TLC-chosen start states and kill points replayed into the real generator",
)
CHECKS["C09"] = dict(
    category="model_checking",
    text="The exact extremes of every container over its whole conditional structure are computed by the interval abstraction of the wire specification (spec/WowmWire.tla SizeFrom: every controlling enumerator, every subset of entangled flag bits) and compared by TLC (spec/MCSizes.tla) with minimum_size / maximum_size / constant_sized of the REGENERATED intermediate representation and with the guard literal compiled into each generated read_inner, for all ~2,700 (container, context) pairs; additionally every behaviour of the wire model must lie inside the declared bounds. Exhaustive per container; the maximum clause applies where the definition's maximum is finite.",
    design_ref="DESIGN.md section 5 C09",
    note="Trusted: tools/regen.py (generator run on a scratch copy), positional pairing of IR objects / generated files with source objects, the interval reading of the built-in types (WowmWire BuiltinIV), TLC. Unbounded types (CString without maximum_length, endless arrays) have no finite true maximum: the generator's policy caps for them are not judged.",
    technique="TLA+ interval abstraction evaluated by TLC as an invariant over the regenerated IR and decoder guards; wire-model behaviours checked against the declared bounds",
)

CHECKS["C11"] = dict(
    category="model_checking",
    text="spec/Definers.tla (enum part: FromInt/AsInt/Variants and TryFrom over nine source types with the reinterpretation table, integers as 9-byte two's complement tuples) is run by TLC over all 302 enums of the corpus loaded from the independent front-end: exhaustive walks over u8/i8 (8-bit enums) and u16/i16 (16-bit enums), probe walks (every declared value, +-1, +-2^8/2^16/2^32 aliases, extremes of all source types, seeded integers) for the rest; invariants Injective, RoundTrip, ScanOK and two's-complement lemmas. Every state prints the specification's answer; vh definer asks the 300 public generated enum types the same question through from_int, every TryFrom impl, variants() and as_int (quick 1.6M states / 2.8M calls, thorough 5.2M states / 8.9M calls), comparing the enumerator or the value carried by the error.",
    design_ref="DESIGN.md section 5 C11, notes/C11.md",
    note="Trusted: tools/wowm_front.py + lower.py (syntactic), the anchor/name mapping of tools/definer_common.py (confirmed against the pub enum item; 2 enums not covered: Race 0.5.4 not generated, login SecurityFlag v3 pub(crate)), record decoding in harness/vh/src/definer.rs, usize = 64 bit, TLC. For a same-width other-signedness source either reading of the rejected value is accepted. Exhaustive only up to 16 bits; wider bases by probes.",
    technique="TLA+ spec explored with TLC per corpus enum; spec-generated verdict tables replayed into the real generated types",
)
CHECKS["C12"] = dict(
    category="model_checking",
    text="spec/Definers.tla (flag part over bit sets: Is with zero_is_always_valid, Set, Clear, New, Empty, All, And/Or/Xor, integer conversions) is run by TLC over all 56 flags of the corpus: per enumerator every raw value of an 8-bit universe, and zero / all-ones / complement / every single bit / seeded values of wider ones; operand pairs; conversion probes; invariant FlagLaws (Clear(Set(v,x),x) = v \\ bits(x), Is(Set(v,x),x), All is the least upper bound, De Morgan on declared bits, byte encoding faithful). Every state prints the specification's answers; vh definer asks the 56 generated flag types and all 40 synthesised flag structs (constants, is/get, set, clear, new, empty, all, operators and assign forms, From/TryFrom incl. error values; quick 120k states / 1.2M calls, thorough 316k / 3.8M).",
    design_ref="DESIGN.md section 5 C12, notes/C12.md",
    note="Trusted: tools/wowm_front.py + lower.py, the anchor/name mapping of tools/definer_common.py (confirmed against the public items of the generated files), raw values read through LowerHex / the derived Debug output of synthesised structs, Default payloads for member-bearing enumerators, usize = 64 bit, u48 judged as the u64 that holds it, TLC. Known finding: clear_x = v & reverse_bits(x) on every flag type (fix changes golden tests).",
    technique="TLA+ spec explored with TLC per corpus flag; spec-generated answer tables replayed into the real generated flag types and synthesised flag structs",
)

CHECKS["C16"] = dict(
    category="fault_enumeration",
    text="spec/WowmStatic.tla: version lattice (15 laws incl. Covers = inclusion / Overlaps = meeting of the sets of client versions, checked by TLC over {1, 1.12, 1.12.1, 1.12.1.5875, 2, 2.4.3, 3, 3.3.5, *}), lookup through versions with paste copies, and 21 static rules with their exit statuses as a rule-by-rule machine; TLC shows Diagnose(corpus) = 0 over the 1,907 corpus objects and predicts the status of every mutant. Mutants = ONE textual edit of the real corpus per (rule, site class[, variant]): 162 (quick) / 640 (thorough) of ~24,800 candidates over object classes plain / #tag_all / paste_versions / shared struct x blocks top / if / else-if / else / optional, incl. lookup-interplay edits (dropping or specialising a provider's version) and well-formed controls; the real generator is run on each mutant tree: exit status = prediction, unmodified tree exits 0, rejected runs remove nothing (H2 trace).",
    design_ref="DESIGN.md section 5 C16, notes/C16.md",
    note="Trusted: tools/wowm_front.py (re-reads every mutant text), tools/static_lower.py, the textual extraction of the opcode index, exit statuses of error_printer/mod.rs, TLC. Rules the documents do not spell out (recursion, self.size position, opcode index) are modelled in their narrowest sense; signed base types use the wide range; mutants breaking two rules are excluded and counted (rule order is not specified). Not covered: test statements, indirect recursion, rule 23, syntax errors.",
    technique="TLA+ spec model-checked with TLC (lattice laws, corpus well-formedness, locality lemma); TLC-predicted diagnostics of enumerated single-fault mutants replayed into the real generator",
)

CHECKS["C04"] = dict(
    category="fault_enumeration",
    text="The fault families of spec/WowmWire.tla (C04EnumFaults, C04SizeFaults, OpFaults) alter the canonical encodings produced by the wire walker in exactly the three specified ways and state the outcome the definition demands: every enum-typed field event of every behaviour (nested in structs, arrays, conditional arms; upcast or not) set at full wire width to all-ones, max+1, the smallest gap and - for upcast fields - every declared value + 2^(8*base width) => error naming that number; every constant-sized message (interval abstraction lo = hi) one/four bytes longer, one byte shorter, empty => error; every opcode adjacent to a defined one or at the extremes that is undefined for the direction and version => unknown-opcode error naming it. ~55k faults (quick) are presented to the real public readers (opcode enums; undefined opcodes also to the typed expect helpers, fixed-size faults also to the typed expect helper of the message itself for the 1,019 syntactically constant-size messages).",
    design_ref="DESIGN.md section 5 C04",
    note="Trusted: the wire model's typing of fields (a fault is only injected where the MODEL says the field is an enum of that width), parsing of the library's error Debug text for the reported number, spec/MCConst.tla for constant-sizedness, TLC. Fault sites come from profile-0 behaviours (every control path, arrays 0..2, later elements deterministic).",
    technique="fault families defined in the TLA+ wire spec, enumerated by TLC per behaviour; every fault replayed into the real decoders with the specified outcome as oracle",
)

CHECKS["C02"] = dict(
    category="model_checking",
    text="spec/Framing.tla - the frame stream of a connection (header grammar of implementing_world.md spelled out in bytes, writer/reader positions, keystream positions; the reader is driven by the header BYTES only) - is model checked by TLC: HeaderExact, Aligned, RoundTrip, ForeignTransparent, KeysAligned/InStep, BodyClear, NoStuckReader, HeaderCodec (band; whole range 0..0x7FFFFD in thorough). The stream also carries FOREIGN frames (undefined opcode) and RUNT frames (size field below the opcode width, also behind the Wrath 3-byte marker) that no writer produces: every reader must report the opcode, consume exactly the frame and deliver the neighbouring messages unchanged. Every explored history (1-3 frames, body lengths around 0x7FFF / 0xFFFF / the caps, 3 expansions x 2 directions x {opcode-enum reader, expect helper, expect helper of another type} x {plain, encrypted}; 30k quick / 57k thorough) is replayed into the real write_*/read_*/expect_* functions (blocking, tokio, async-std): every header byte, total and declared length, reader position after each message, delivered message. thorough adds every body length 0..0x1_0010 and every 4,099th up to the cap. Seeded random sequences are recorded from the real code and validated by spec/TraceFraming.tla.",
    design_ref="DESIGN.md section 5 C02, notes/C02.md",
    note="Trusted: tools/framing_pool.py (opcodes / body shapes of 8 pool messages from the wowm text), the reading 0x7FF -> 0x7FFF of implementing_world.md, harness construction of a message with a requested body length, TLC + Json/IOUtils. Pool messages stand for all messages (the header paths are message independent except the compressed overrides, which only the random driver exercises). Bodies the form cannot express are out of scope.",
    technique="TLA+ spec model-checked with TLC; spec->impl replay of every explored history; impl->spec trace validation of random sequences with TLC",
)
CHECKS["C05"] = dict(
    category="model_checking",
    text="spec/Framing.tla in mode c05: both directions of a connection with four header cipher halves, each modelled by the keystream bytes it has consumed; WriteEncrypted / ReadEncrypted advance them by the header bytes of the form in use (Wrath server 4 or 5). TLC checks KeysAligned, InStep, BodyClear, Aligned, RoundTrip over all dialogues of up to 4 messages from the size classes around the 2->3 byte switch and the 16 bit limits (37k quick / 45k thorough). Each dialogue is executed with REAL wow_srp halves built through the public ProofSeed handshake under 4 / 64 session keys: plain and encrypted output written in parallel may differ only in the model's header ranges, the encrypted header must equal the raw cipher of a reference half applied to the model's header, the peer's decrypting readers (opcode enum, expect helpers; blocking/tokio/async-std) must return the same messages at the same positions, and after every message each real half must be in the state of its reference half. Random dialogues of up to 200 messages are recorded and validated by spec/TraceFraming.tla.",
    design_ref="DESIGN.md section 5 C05, notes/C05.md",
    note="Trusted: the abstraction of a half by its keystream position (Vanilla/TBC state also depends on the previous ciphertext byte; the reference halves reproduce it because they are fed the same bytes), observing state equality through an 8 byte probe on clones, the pool messages of C02, TLC. The overridden write_encrypted_* of compressed messages are exercised by the random driver only.",
    technique="TLA+ spec model-checked with TLC; spec->impl replay of every dialogue with real cipher halves under several keys; impl->spec trace validation of random dialogues",
)
CHECKS["C10"] = dict(
    category="model_checking",
    text="RFC 8927 validity (spec/Jtd.tla) and the refinement mapping Abs/Norm/Bound (spec/IrRefine.tla) are evaluated by TLC, exhaustively, on every object of the intermediate representation regenerated from /repo's working tree (2,923 schema records; 2,239 source instances forward, 2,239 IR objects backward - omitting nothing, inventing nothing - with the first differing field path per object); behavioural cross-check: the terminal behaviours of spec/WowmWire.tla over the lowered sources and over a corpus lowered from the IR coincide (thorough: ~60k + ~68k behaviours, every controlling enumerator).",
    design_ref="DESIGN.md section 5 C10, notes/C10.md",
    note="Trusted: tools/wowm_front.py, tools/irlower.py (lexical/structural lowering), the normalisations N1-N8 stated in IrRefine.tla, tools/regen.py (scratch run of the generator), WowmWire's bounds for the cross-check. Honest limit: a refinement mapping between two documents evaluated by a model checker, not a state-space exploration; the JTD clause is the thinnest use of TLA+.",
    technique="TLA+ JTD-validity and refinement-mapping predicates evaluated by TLC on the regenerated IR; spec-level behavioural equivalence through the wire model",
)
CHECKS["C03"] = dict(
    category="fault_enumeration",
    text="The C03 fault family of spec/WowmWire.tla corrupts the canonical encodings of every message at chosen places (every field event set to zeros / ones / 1 / 0x7f.. / 2, truncation at every field boundary with a consistent and with the original header, trailing garbage, header size +1 / 0) and the driver adds seeded random bodies behind every defined opcode; each frame is decoded by the real public readers in a worker process with a 1 GiB address-space limit and a 5 s per-frame watchdog, with overflow checks on. Only Ok(_) and Err(_) are acceptable; panics, aborts (stack overflow, allocation failure), and timeouts are violations (~290k frames quick). Header-level faults come from spec/Framing.tla: frames with an undefined opcode and RUNT frames whose size field is smaller than the opcode field (2-byte form and Wrath 3-byte marker), alone and next to regular messages, through every world reader entry point (opcode enums, typed expect helpers, plain / decrypting, three flavours).",
    design_ref="DESIGN.md section 5 C03",
    note="Trusted: the worker isolation in tools/replay.py (resume after a killing record) and harness/vh/src/codec.rs (RLIMIT_AS, watchdog), the wire model for valid-up-to-one-field inputs. Not generated: zlib-level corruptions other than same-length replacements inside the plain payload, frames larger than a few hundred bytes.",
    technique="fault families defined in the TLA+ wire spec (bodies) and the TLA+ framing spec (foreign and runt headers), enumerated by TLC per behaviour, plus seeded random frames; every frame decoded in an isolated, resource-limited worker",
)

CHECKS["C14"] = dict(
    category="model_checking",
    text="spec/Collective.tla steps through every (login message family, older protocol version) pair and checks on the definitions that every informative field of the older version has a place in the latest version (the design-level condition for Lower_N o Lift_N = id); the behaviours of spec/WowmWire.tla for every login message of protocol versions 2, 3, 5, 6, 7, 8 (all control paths, 6 / 24 value profiles; ~5,000 quick) are executed against the real crate: version N's own reader -> from_version_N -> to_version_N must give back the value and its bytes, and version_8's read_protocol / write_protocol must yield exactly the lifted value and the original bytes.",
    design_ref="DESIGN.md section 5 C14",
    note="Trusted: the generated dispatch (tools/gen_dispatch.py, names from the front-end's object table), the wire model's canonical encodings, TLC. Sync API only (tokio / async-std variants of the protocol API share the conversions; transports are C06's subject). CMD_SURVEY_RESULT has no collective type.",
    technique="TLA+ structural embedding check with TLC plus spec->impl replay of every wire-model behaviour through lift / lower and the protocol-parameterised API",
)

CHECKS["C17"] = dict(
    category="model_checking",
    text="spec/Dissector.tla gives the statement language of the generated Wireshark fragments (parser.txt etc., REGENERATED from the working tree and parsed by tools/dissector_front.py: 547 opcode programs, ~5,000 statements) an operational semantics over a byte buffer, incl. the second cursor for decompressed tvbs; TLC runs the dissector program of every Vanilla world / login opcode (per direction and protocol version) over every behaviour of spec/WowmWire.tla within bounds and checks Refines - same consumption sequence (offsets, widths, endianness), same arms, halts exactly at the end of the body - and Declared (every hf_* field, variable and enumerator constant referenced is declared / registered with the wowm value). quick ~3,000 behaviours, thorough ~63,000.",
    design_ref="DESIGN.md section 5 C17, notes/C17.md",
    note="Trusted: tools/dissector_front.py, tools/wowm_front.py + lower.py, the documented Wireshark API semantics and the documented type semantics for the hand-written C helpers (Wireshark is not installed), name-based linking of case labels and enumerator constants. Arms are compared through the fields they consume; array element widths only through the total length.",
    technique="TLA+ operational semantics of the dissector fragment language; refinement against the wire model's behaviours decided by TLC on the regenerated generator output",
)

CHECKS["C19"] = dict(
    category="exploration",
    text="spec/Features.tla - cargo feature configurations as a state machine (Enable(f) closing under the Cargo.toml implications incl. implicit optional-dependency features and dep/feat forwarding into wow_world_base) - is model checked by TLC over the full powerset of all three crates (840 closed configurations) with the invariant GuardClosed (every item present under a configuration only names items present under it) on a text-level extraction of 50,759 cfg-guarded items and 62,831 resolved references (435 classes). TLC prints the configuration lists (quick: TLC-checked pairwise covering array + TLC-checked strength-3 covering array over the core features of wow_world_messages (first-order Reed-Muller rows) + singles + all + default + documented command lines = ~55; thorough: core powerset x auxiliary off/on = 526, base and login complete); each is compiled with cargo check --no-default-features --features F in a scratch copy of the current tree and rustc's verdict compared with the model's prediction; features named in the crate docs must be declared. Differential: the C01 quick behaviours (codec path) AND the frame-stream histories of spec/Framing.tla (1-3 frames around the 0x7FFF / 0xFFFF boundaries through opcode-enum readers and typed expect helpers, plain and encrypted, three I/O flavours) are executed by the all-features build (vh) and by a generated one-expansion build (vh2, sources derived from vh's at check time) and must get identical verdicts.",
    design_ref="DESIGN.md section 5 C19, notes/C19.md",
    note="Whether a configuration builds is rustc's verdict, not the specification's (hence exploration). Trusted: tools/features_front.py (text-level, approximate: unqualified uses, method calls, macros, traits are not followed; misses are only caught by the configurations actually compiled), Cargo feature semantics as transcribed, the offline registry, library target only (cfg(test) off), supported set = every subset because pre-release.sh runs cargo hack --feature-powerset.",
    technique="TLA+ configuration machine model-checked with TLC (closure invariant over the full feature powerset); spec-emitted configurations replayed into cargo check; differential replay of spec-generated codec behaviours against two differently featured builds",
)
CHECKS["C06"] = dict(
    category="model_checking",
    text="spec/ChunkedRead.tla (transport buffer -> partly filled read_exact request -> bytes returned; Deliver, ReturnPending, CompleteRead, Eof) is model checked - NoLoss, CompleteGuard, ScheduleIndependent, InOrder; termination under weak fairness with unbounded Pending - for the read script of every login behaviour (incl. two extra explorations whose long string pattern is 256 and 257 bytes, the boundary of the login crate's CString cap) and of a pool of world messages; every transport schedule of messages up to 12 (16) bytes (all chunk compositions x Eof at every prefix x Pending placements, bounds in the evidence) and 64 (1,024) simulated schedules per longer length are replayed into scripted tokio / futures-io transports under all three generated variants of the login opcode-enum readers of the 6 protocol versions, expect_*_message for every login message, read_protocol, read_initial_message, every login writer, the world read_unencrypted / write_unencrypted / write_encrypted (fresh cipher half per run) of 3 expansions x 2 directions and typed world expect helpers; every async outcome is compared with the blocking outcome on the same delivered content (279k schedules / 35M async runs quick).",
    design_ref="DESIGN.md section 5 C06, notes/C06.md",
    note="Trusted: the transport abstraction (bytes per poll, Pending with wake, close at a prefix), read scripts from WowmWire events, the hand-polled futures with a counting waker (a lost wake-up is the verdict 'stuck'), generated entry points (tools/gen_chunks.py), TLC. Full Pending enumeration only up to length 7 (9); compressed world messages excluded from the pool.",
    technique="TLA+ spec model-checked with TLC (exhaustive, -simulate, liveness); TLC-generated transport schedules replayed into the real tokio / async-std / blocking variants with the model's ScheduleIndependent invariant as differential oracle",
)

CHECKS["C18"] = dict(
    category="model_checking",
    text="every wowm block of the generated Rust doc comments (2,057) and of the documentation pages (2,064 version sections of 1,411 pages), taken from the regenerated output where it differs from the committed one, is re-parsed by the independent front-end and compared by TLC with its source object (spec/DocRefine.tla: SameDefinition with the first differing path; body table = flattened definition with sizes from the wire model's intervals; enumerator tables; both directions incl. undocumented objects); every documented example (175) is validated by TLC as a trace of annotated byte groups against the definition's decoder WowmWire!Dec (spec/TraceDocExamples.tla: concatenation = a corpus test vector, header groups, group boundaries = decoder events in order, leaf names, enumerator names and value literals). All images and examples in both tiers; thorough adds a seeded single-token sensitivity sweep over every documentation file (3,203 changes, all rejected).",
    design_ref="DESIGN.md section 5 C18; notes/C18.md",
    note="definition half is a mapping evaluated by TLC over a chain of pair states (no interleaving); example half is genuine trace validation of the doc printer as a second wire walker. 6 compressed examples and 12 sections without a body table are uncovered; offsets / endianness / type labels of tables and the [i] / struct prefixes of example paths are not judged. Finding: SizedCString example bytes printed inside a comment (smsg_messagechat.md:111) - notes/C18.patch or the proposed known finding. TLC -coverage is not usable on the trace module (OOM); it keeps own per-action counters.",
    technique="TLA+ refinement mapping doc text -> object table (DocRefine) + TLC trace validation of documented examples against WowmWire!Dec (TraceDocExamples); artefacts from tools/regen.py (generator built from the current tree); self-test by text mutation",
)

CHECKS["C07"] = dict(
    category="model_checking",
    text="spec/WowmGrammar.tla: constructive specification of well-formed wowm programs (partial program as state; 16 actions adding definers, structs, scalars, constants, self.size, enum/flag fields with upcast, fixed/variable/endless arrays, if / else-if / else with ==, !=, &, ||, nested once, optional tail; every step guarded by the rule of lang-spec.md it transcribes; invariants NamesUnique, TailLast, IfsWellFormed, DefinersOk on every state). tlc -simulate (VERIF_SEED) yields 40 (quick) / 500 (thorough) distinct programs, selected to span the feature inventory; spec/WowmShapes.tla adds, exhaustively (breadth-first), every if / else-if / else statement whose arms are drawn from a menu of member lists of different extent (fixed small / fixed large / bounded variable / unbounded; 48 programs quick, 540 thorough, operators ==, !=, &) so that every ordering of arm extents occurs; each program is printed as wowm (printer/parser round trip against the independent front-end), embedded in place of an existing Vanilla message of a scratch copy, and taken through the REAL generator (must exit 0), WowmStatic (C16's rules: must break none), rustc (scratch wow_world_base / wow_world_messages with sync+tokio+async-std+vanilla must compile) and WowmWire (all canonical encodings; SizeAgrees, UniquelyDecodable) whose behaviours are replayed through the public opcode enums of the freshly built crates: accepted, exact consumption, byte-identical re-encode, size assertion; the sizes and reader guards the generator derived for the programs are judged by spec/MCSizes.tla (soundness clauses of C09). Failures are attributed to single programs (diagnostic text, bisection, generated file names) and reported with the program text.",
    design_ref="DESIGN.md section 5 C07, notes/C07.md",
    note="Trusted: tools/wowm_front.py, tools/lower.py, tools/wowm_print.py (round trip checked, reproduces all 1,907 corpus objects), WowmWire/WowmTypes, the derived harness vh7, TLC. Bounds: <= 3 definers, 2 structs, 10 message members, ifs nested once; world cmsg/smsg of 1.12 only (no login, msg, compressed, masks, UpdateMask, NamedGuid); self.size u16/u32; identifiers digit-free and workspace-unique (the Wireshark name-stem finding is probed separately); sampling, not exhaustive. Generator defects on shapes the corpus does not use are listed in known_findings.jsonl (keys c07-*) or repaired by fix: commits (DESIGN.md 10.3).",
    technique="TLA+ spec explored with TLC in simulation mode (invariants on every state), programs cross-checked by two independently written TLA+ specs (WowmStatic, WowmWire) and replayed into the real generator, rustc and the freshly generated codecs",
)

NOT_YET = {}

def main():
    props = [json.loads(l)["id"] for l in open(os.path.join(HERE, "properties.jsonl"))]
    checks = []
    for pid in props:
        if pid not in CHECKS:
            continue
        c = CHECKS[pid]
        checks.append({
            "property_id": pid,
            "quick_cmd": "./check %s quick" % pid,
            "thorough_cmd": "./check %s thorough" % pid,
            "evidence_file": "evidence/%s.json" % pid,
            "replay_cmd_template": "./check %s --replay {path}" % pid,
            "engine": "tlc+harness",
            "level_claimed": {"category": c["category"], "text": c["text"], "design_ref": c["design_ref"]},
            "level_note": c["note"],
            "technique": c["technique"],
        })
    na = []
    for pid in props:
        if pid not in CHECKS:
            na.append({"property_id": pid, "reason": NOT_YET.get(pid, "check not built yet in this round; see DESIGN.md section 5 for the planned TLA+ module and conformance binding")})
    m = {
        "version": 1,
        "setup_cmd": "./setup.sh",
        "hooks": {
            "guard": "--cfg wowm_verif",
            "enable": "RUSTFLAGS='--cfg wowm_verif --check-cfg cfg(wowm_verif)' (set in /verif/harness/.cargo/config.toml and by tools/regen.py for the generator build)",
            "baseline_off_cmd": "cd /repo && cargo nextest run --workspace --no-fail-fast --tool-config-file pb:/w/lib/nextest.toml --profile pb --test-threads 8 --offline || cargo test --workspace --no-fail-fast --offline",
            "source_commits": HOOK_COMMITS,
            "add_only": True,
        },
        "engines": [
            {"name": "tlc+harness", "path": "check", "serves_properties": [c["property_id"] for c in checks],
             "kind_free_text": "explicit TLA+ specifications in spec/ checked with TLC; behaviours printed by TLC are replayed into the real Rust code by harness/ (spec->impl) and traces recorded from the real code are validated by Trace*.tla (impl->spec)"},
        ],
        "checks": checks,
        "not_applicable": na,
        "notes": "Known findings and fixed defects: known_findings.jsonl. Exit codes: 0 held, 1 violation (VIOLATION line), 2 tool error.",
    }
    with open(os.path.join(HERE, "MANIFEST.json"), "w") as f:
        json.dump(m, f, indent=1)
        f.write("\n")

HOOK_COMMITS = ['d49e39f77', 'd6d18dd1b']

if __name__ == "__main__":
    main()
