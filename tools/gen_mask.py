"""C13 front-end: published update-field table + public accessor surface -> harness dispatch + TLC tables.

Run as `python3 -m tools.gen_mask` (cwd /verif). Idempotent: files are rewritten only when their
content changes. Three sources, none of them the generator's internals:

* the ORACLE: /repo/wowm_language/src/types/update-mask.md (name, offset, size, type per expansion and
  object class) plus the published pages of the types that accessors take as arguments
  (docs/visibleitem.md, docs/skillinfo.md: member byte offsets; docs/<definer>.md: declared values;
  docs/objecttype.md: the bit number of each object class in OBJECT_TYPE);
* the SUBJECT's public surface: the `pub fn` signatures in
  /repo/wow_world_messages/src/helper/<exp>/update_mask/impls.rs and the `Index<n>` variants of
  indices.rs - read as text, only to know WHAT can be called (every accessor gets called);
* nothing else.

Name normalisation (the only one): table row `<CLASS>_<NAME>` <-> setter `set_<class>_<name>` and
getter `<class>_<name>`, lower-cased, looked up among the classes the object kind carries
(item = object+item, container = object+item+container, unit = object+unit, player = object+unit+
player, gameobject/dynamicobject/corpse = object+own). Accessors without a row, rows without an
accessor and accessors whose signature this tool has no call recipe for are LISTED (evidence:
"unmapped"), never reported as violations.

Outputs:
  harness/vh/src/generated/mask_gen.rs      dispatch: one `impl MaskKind` per expansion x kind
  work/C13/table.json (via lowered_table())  rows per accessor for TraceUpdateMask.tla
"""
import json
import os
import re
import sys

from tools import common as C

EXPS = ["vanilla", "tbc", "wrath"]
EXP_OF_VERSION = {"1.12": "vanilla", "2.4.3": "tbc", "3.3.5": "wrath"}
EXP_VERSIONS = {"vanilla": ["1", "1.12", "1.12.1"], "tbc": ["2", "2.4", "2.4.3"], "wrath": ["3", "3.3", "3.3.5"]}
# object kind -> classes whose fields it carries (order = table order)
KINDS = {
    "item": ["object", "item"],
    "container": ["object", "item", "container"],
    "unit": ["object", "unit"],
    "player": ["object", "unit", "player"],
    "gameobject": ["object", "gameobject"],
    "dynamicobject": ["object", "dynamicobject"],
    "corpse": ["object", "corpse"],
}
KIND_ORDER = ["item", "container", "unit", "player", "gameobject", "dynamicobject", "corpse"]
RUST_KIND = {"item": "Item", "container": "Container", "unit": "Unit", "player": "Player",
             "gameobject": "GameObject", "dynamicobject": "DynamicObject", "corpse": "Corpse"}

DOC = os.path.join(C.REPO, "wowm_language", "src")
TABLE_MD = os.path.join(DOC, "types", "update-mask.md")
GEN_DIR = os.path.join(C.HARNESS, "vh", "src", "generated")
GEN_RS = os.path.join(GEN_DIR, "mask_gen.rs")


# ------------------------------------------------------------------------------------------------
# oracle: the published table
# ------------------------------------------------------------------------------------------------

def parse_table(path=TABLE_MD):
    """-> {exp: {class: [ {name, off, size, ty} ]}} in document order."""
    out = {}
    exp = cls = None
    for line in open(path, encoding="utf-8"):
        line = line.rstrip("\n")
        m = re.match(r"^### Version (\S+)", line)
        if m:
            exp = EXP_OF_VERSION.get(m.group(1))
            if exp is None:
                raise C.ToolError("update-mask.md: unknown version heading %r" % line)
            out[exp] = {}
            cls = None
            continue
        m = re.match(r"^Fields that all (\w+)s have:", line)
        if m and exp:
            cls = m.group(1)
            out[exp][cls] = []
            continue
        m = re.match(r"^\|`(\w+)`\|\s*0x([0-9a-fA-F]+)\s*\|\s*(\d+)\s*\|\s*(\w+)\s*\|$", line)
        if m and exp and cls:
            out[exp][cls].append({"name": m.group(1), "off": int(m.group(2), 16), "size": int(m.group(3)),
                                  "ty": m.group(4)})
    for e in EXPS:
        if e not in out or not out[e].get("object"):
            raise C.ToolError("update-mask.md: no table parsed for %s" % e)
    return out


def doc_sections(name):
    """Sections of docs/<name>.md keyed by expansion. -> {exp: text}"""
    path = os.path.join(DOC, "docs", name.lower() + ".md")
    if not os.path.exists(path):
        return {}
    text = open(path, encoding="utf-8").read()
    parts = re.split(r"^## (.*)$", text, flags=re.M)
    out = {}
    for i in range(1, len(parts), 2):
        head, body = parts[i], parts[i + 1]
        versions = re.findall(r"Client Version ([0-9.]+)", head)
        for e in EXPS:
            if any(v in EXP_VERSIONS[e] for v in versions):
                out[e] = body
    return out


def definer_doc(name):
    """-> {exp: {"base": "u8", "values": [ints in declaration order]}}"""
    out = {}
    for e, body in doc_sections(name).items():
        m = re.search(r"^(?:enum|flag) \w+ : (\w+) \{", body, flags=re.M)
        vals = [int(v) for v in re.findall(r"^\| `\w+` \| (\d+) \(0x[0-9A-Fa-f]+\) \|", body, flags=re.M)]
        if m and vals:
            out[e] = {"base": m.group(1), "values": vals}
    return out


def struct_doc(name):
    """-> {exp: [ {m, boff, bsize, ty, const} ]} from the Body table and the wowm text."""
    out = {}
    for e, body in doc_sections(name).items():
        consts = set(re.findall(r"^\s+\S+ (\w+) = \S+;", body, flags=re.M))
        rows = []
        for m in re.finditer(r"^\| 0x([0-9A-Fa-f]+) \| (\d+) / \S+ \| (.+?) \| (\w+) \|", body, flags=re.M):
            ty = m.group(3)
            lm = re.match(r"\[(\w+)\]\(.*\)", ty)
            if lm:
                ty = lm.group(1)
            rows.append({"m": m.group(4), "boff": int(m.group(1), 16), "bsize": int(m.group(2)), "ty": ty,
                         "const": m.group(4) in consts})
        if rows:
            out[e] = rows
    return out


def object_type_bits():
    """docs/objecttype.md: class name (normalised) -> enumerator value = bit number in OBJECT_TYPE."""
    out = {}
    for e, body in doc_sections("objecttype").items():
        d = {}
        for m in re.finditer(r"^\| `(\w+)` \| (\d+) \(0x", body, flags=re.M):
            d[m.group(1).replace("_", "").lower()] = int(m.group(2))
        out[e] = d
    return out


def type_word(exp, kind, otb=None):
    otb = otb or object_type_bits()
    v = 0
    for cls in KINDS[kind]:
        v |= 1 << otb[exp][cls]
    return [v & 0xFF, (v >> 8) & 0xFF, (v >> 16) & 0xFF, (v >> 24) & 0xFF]


# ------------------------------------------------------------------------------------------------
# subject: the public accessor surface (signatures only)
# ------------------------------------------------------------------------------------------------

def parse_api(exp):
    """-> {impl type name: [ {name, params:[(pname, ptype)], ret, selfkind} ]}"""
    path = os.path.join(C.REPO, "wow_world_messages", "src", "helper", exp, "update_mask", "impls.rs")
    out = {}
    cur = None
    for line in open(path, encoding="utf-8"):
        m = re.match(r"^impl (\w+) \{", line)
        if m:
            cur = m.group(1)
            out[cur] = []
            continue
        m = re.match(r"^\s+pub fn (\w+)\((.*)\)(?: -> (.*?))? \{\s*$", line)
        if m and cur:
            params = [p.strip() for p in split_top(m.group(2))]
            selfkind = params[0]
            ps = []
            for p in params[1:]:
                if not p:
                    continue
                pn, pt = p.split(":", 1)
                ps.append((pn.strip(), pt.strip()))
            out[cur].append({"name": m.group(1), "params": ps, "ret": (m.group(3) or "").strip(),
                             "selfkind": selfkind})
    return out


def split_top(s):
    out, depth, cur = [], 0, ""
    for ch in s:
        if ch in "(<[":
            depth += 1
        elif ch in ")>]":
            depth -= 1
        if ch == "," and depth == 0:
            out.append(cur)
            cur = ""
        else:
            cur += ch
    if cur.strip():
        out.append(cur)
    return out


def parse_index_enums(exp):
    """indices.rs: {enum name: number of Index<n> variants}"""
    path = os.path.join(C.REPO, "wow_world_messages", "src", "helper", exp, "update_mask", "indices.rs")
    text = open(path, encoding="utf-8").read()
    out = {}
    for m in re.finditer(r"^pub enum (\w+) \{\n((?:\s+Index\d+,\n)+)\}", text, flags=re.M):
        out[m.group(1)] = len(re.findall(r"Index\d+", m.group(2)))
    return out


PLAIN = {"i32": "i32", "f32": "f32", "Guid": "guid"}


def classify(exp, fn, definers, structs, index_enums):
    """Call recipe of a setter signature, or None if this tool does not know how to call it."""
    ps = fn["params"]
    if len(ps) == 1 and ps[0][1] in PLAIN:
        return {"sig": PLAIN[ps[0][1]]}
    if len(ps) == 4:
        lanes = []
        for pn, pt in ps:
            if pt == "u8":
                lanes.append(None)
            elif pt in definers and exp in definers[pt] and definers[pt][exp]["base"] == "u8":
                lanes.append(pt)
            else:
                return None
        return {"sig": "u8x4", "lanes": lanes}
    if len(ps) == 2 and ps[0][1] == "u16" and ps[1][1] == "u16":
        return {"sig": "u16x2"}
    if len(ps) == 2 and ps[1] == ("item", "Guid"):
        ty = ps[0][1].split("::")[-1]
        if ty in definers and exp in definers[ty]:
            return {"sig": "slot_guid", "slot_ty": ty, "slot_path": ps[0][1], "slot_param": ps[0][0]}
        return None
    if len(ps) == 2 and ps[1][0] == "index":
        ty = ps[0][1].split("::")[-1]
        if ty in structs and exp in structs[ty] and ps[1][1] in index_enums:
            return {"sig": "struct", "struct": ty, "struct_path": ps[0][1], "index_ty": ps[1][1],
                    "count": index_enums[ps[1][1]]}
        return None
    return None


class Front:
    """Everything the check needs, computed once."""

    def __init__(self):
        self.table = parse_table()
        self.otb = object_type_bits()
        self.definers = {n: definer_doc(n) for n in
                         ["Race", "Class", "Gender", "Power", "UnitStandState", "ItemSlot", "Skill"]}
        self.structs = {n: struct_doc(n) for n in ["VisibleItem", "SkillInfo"]}
        self.api = {e: parse_api(e) for e in EXPS}
        self.index_enums = {e: parse_index_enums(e) for e in EXPS}
        self.acc = {}        # (exp, kind) -> [accessor descriptor]
        self.unmapped = []   # accessors of the API we could not bind to a row / call recipe
        self.rows_without_accessor = []
        self._bind()

    def rows_of(self, exp, kind):
        out = []
        for cls in KINDS[kind]:
            out.extend(self.table[exp].get(cls, []))
        return out

    def _bind(self):
        for exp in EXPS:
            for kind in KIND_ORDER:
                ty = "Update" + RUST_KIND[kind]
                rows = {("set_" + r["name"].lower()): r for r in self.rows_of(exp, kind)}
                setters = {f["name"]: f for f in self.api[exp].get(ty, []) if f["name"].startswith("set_")}
                getters = {f["name"]: f for f in self.api[exp].get(ty, []) if not f["name"].startswith("set_")}
                bsetters = {f["name"]: f for f in self.api[exp].get(ty + "Builder", [])
                            if f["name"].startswith("set_")}
                lst = []
                for name in sorted(set(setters) | set(bsetters)):
                    fn = setters.get(name) or bsetters.get(name)
                    row = rows.get(name)
                    why = None
                    recipe = classify(exp, fn, self.definers, self.structs, self.index_enums[exp])
                    if row is None:
                        why = "no table row named %s for %s" % (name[4:].upper(), kind)
                    elif recipe is None:
                        why = "signature not supported by the harness generator: %s" % (fn["params"],)
                    elif name in setters and name in bsetters and setters[name]["params"] != bsetters[name]["params"]:
                        why = "builder and mask setter signatures differ"
                    elif name[4:] not in getters:
                        why = "no getter %s" % name[4:]
                    if why:
                        self.unmapped.append({"exp": exp, "kind": kind, "accessor": name, "why": why})
                        continue
                    d = {"exp": exp, "kind": kind, "acc": name, "get": name[4:], "row": row,
                         "has_mask": name in setters, "has_builder": name in bsetters}
                    d.update(recipe)
                    lst.append(d)
                for name, fn in sorted(getters.items()):
                    if "set_" + name not in setters and "set_" + name not in bsetters:
                        self.unmapped.append({"exp": exp, "kind": kind, "accessor": name,
                                              "why": "getter without setter"})
                for name, r in rows.items():
                    if name not in setters and name not in bsetters:
                        self.rows_without_accessor.append({"exp": exp, "kind": kind, "row": r["name"]})
                self.acc[(exp, kind)] = lst

    # -------------------------------------------------------------------------------------------
    def lowered_table(self):
        """Rows keyed by accessor name, for TraceUpdateMask.tla. Integers are all small."""
        out = {}
        for exp in EXPS:
            out[exp] = {}
            for kind in KIND_ORDER:
                d = {}
                for a in self.acc[(exp, kind)]:
                    r = a["row"]
                    e = {"name": r["name"], "off": r["off"], "size": r["size"], "ty": r["ty"],
                         "count": 0, "layout": []}
                    if a["sig"] == "struct":
                        e["count"] = a["count"]
                        e["layout"] = [{"m": m["m"], "boff": m["boff"], "bsize": m["bsize"],
                                        "const": m["const"]} for m in self.structs[a["struct"]][exp]]
                    d[a["acc"]] = e
                out[exp][kind] = {"typeWord": type_word(exp, kind, self.otb), "rows": d,
                                  "all": [{"name": r["name"], "off": r["off"], "size": r["size"]}
                                          for r in self.rows_of(exp, kind)]}
        return out

    # -------------------------------------------------------------------------------------------
    def representative(self, exp, kind):
        """The representative accessor set of DESIGN.md C13, chosen from the published table:
        GUID pair at 0-1, INT at 3, first FLOAT, first plain BYTES, first TWO_SHORT, the accessors
        nearest to the 31/32 block boundary (last starting <= 31, first two starting >= 32) and the
        kind's last accessor. Only plain (non-definer, non-indexed) accessors qualify."""
        cand = []
        for a in self.acc[(exp, kind)]:
            if not (a["has_mask"] and a["has_builder"]):
                continue
            if a["sig"] in ("i32", "f32", "u16x2"):
                n = 1
            elif a["sig"] == "guid":
                n = 2
            elif a["sig"] == "u8x4" and all(l is None for l in a["lanes"]):
                n = 1
            else:
                continue
            cand.append({"acc": a["acc"], "get": a["get"], "off": a["row"]["off"], "n": n, "sig": a["sig"],
                         "ty": a["row"]["ty"]})
        cand.sort(key=lambda c: c["off"])
        picked = []

        def pick(c):
            if c and all(p["acc"] != c["acc"] for p in picked):
                picked.append(c)

        def first(pred):
            for c in cand:
                if pred(c):
                    return c
            return None

        pick(first(lambda c: c["off"] == 0 and c["sig"] == "guid"))
        pick(first(lambda c: c["off"] == 3 and c["sig"] == "i32"))
        pick(first(lambda c: c["sig"] == "f32"))
        pick(first(lambda c: c["sig"] == "u8x4"))
        pick(first(lambda c: c["sig"] == "u16x2"))
        below = [c for c in cand if c["off"] <= 31]
        above = [c for c in cand if c["off"] >= 32]
        if below:
            pick(below[-1])
        for c in above[:2]:
            pick(c)
        if cand:
            pick(cand[-1])
        picked.sort(key=lambda c: c["off"])
        return picked


# ------------------------------------------------------------------------------------------------
# Rust generation
# ------------------------------------------------------------------------------------------------

def _member_rust_ty(m, exp, definers):
    ty = m["ty"]
    am = re.match(r"^(u16|u32)\[(\d+)\]$", ty)
    if am:
        return ("arr", am.group(1), int(am.group(2)))
    if ty in ("u32", "Item", "Spell"):
        return ("int", "u32", 4)
    if ty == "u16":
        return ("int", "u16", 2)
    if ty == "Guid":
        return ("guid", None, 8)
    if ty in definers and exp in definers[ty]:
        return ("def", ty, {"u8": 1, "u16": 2, "u32": 4}[definers[ty][exp]["base"]])
    raise C.ToolError("struct member type %r not supported by gen_mask" % ty)


def _struct_codec(exp, sname, layout, definers):
    """Rust fns: json members -> struct, struct -> json members (names only; no offsets)."""
    path = "wow_world_messages::%s::%s" % (exp, sname)
    fn = "%s_%s" % (exp, sname.lower())
    dec, enc, args = [], [], []
    for m in layout:
        if m["const"]:
            continue
        k = _member_rust_ty(m, exp, definers)
        n = m["m"]
        args.append(n)
        if k[0] == "guid":
            dec.append('    let %s = Guid::new(u64::from_le_bytes(fixed::<8>(&member(a, "%s")?)?));' % (n, n))
            enc.append('    o.insert("%s".into(), jbytes(&s.%s.guid().to_le_bytes()));' % (n, n))
        elif k[0] == "int":
            dec.append('    let %s = %s::from_le_bytes(fixed::<%d>(&member(a, "%s")?)?);' % (n, k[1], k[2], n))
            enc.append('    o.insert("%s".into(), jbytes(&s.%s.to_le_bytes()));' % (n, n))
        elif k[0] == "arr":
            w = 2 if k[1] == "u16" else 4
            dec.append('    let raw = member(a, "%s")?;' % n)
            dec.append('    if raw.len() != %d { return Err("member %s: wrong length".into()); }' % (w * k[2], n))
            dec.append('    let mut %s = [0 as %s; %d];' % (n, k[1], k[2]))
            dec.append('    for i in 0..%d { %s[i] = %s::from_le_bytes(fixed::<%d>(&raw[i * %d..(i + 1) * %d])?); }'
                       % (k[2], n, k[1], w, w, w))
            enc.append('    { let mut v = Vec::new(); for x in s.%s.iter() { v.extend_from_slice(&x.to_le_bytes()); }'
                       ' o.insert("%s".into(), jbytes(&v)); }' % (n, n))
        elif k[0] == "def":
            base = {1: "u8", 2: "u16", 4: "u32"}[k[2]]
            dpath = "wow_world_messages::%s::%s" % (exp, k[1])
            dec.append('    let %s = <%s>::try_from(%s::from_le_bytes(fixed::<%d>(&member(a, "%s")?)?))'
                       '.map_err(|_| "member %s: not a declared value".to_string())?;' % (n, dpath, base, k[2], n, n))
            enc.append('    o.insert("%s".into(), jbytes(&s.%s.as_int().to_le_bytes()));' % (n, n))
    src = []
    src.append("fn dec_%s(a: &Value) -> Result<%s, String> {" % (fn, path))
    src.extend(dec)
    src.append("    Ok(<%s>::new(%s))" % (path, ", ".join(args)))
    src.append("}")
    src.append("fn enc_%s(s: &%s) -> Value {" % (fn, path))
    src.append("    let mut o = serde_json::Map::new();")
    src.extend(enc)
    src.append("    Value::Object(o)")
    src.append("}")
    return "\n".join(src), fn


def _setter_arm(a, exp, target, builder):
    """One match arm. target = variable holding mask (`m`) or builder (`b`)."""
    name = a["acc"]
    sig = a["sig"]
    pre, call_args, log = [], "", ""
    if sig == "i32":
        pre = ["let v = w_i32(a)?;"]
        call_args, log = "v", 'log("i32", jbytes(&v.to_le_bytes()))'
    elif sig == "f32":
        pre = ["let v = w_f32(a)?;"]
        call_args, log = "v", 'log("f32", jbytes(&v.to_le_bytes()))'
    elif sig == "guid":
        pre = ["let v = w_guid(a)?;"]
        call_args, log = "v", 'log("guid", jbytes(&v.guid().to_le_bytes()))'
    elif sig == "u16x2":
        pre = ["let (x, y) = w_u16x2(a)?;"]
        call_args, log = "x, y", 'log("u16x2", json!([x, y]))'
    elif sig == "u8x4":
        names = ["x0", "x1", "x2", "x3"]
        pre = ["let l = w_u8x4(a)?;"]
        logs = []
        for i, lane in enumerate(a["lanes"]):
            if lane is None:
                pre.append("let %s = l[%d];" % (names[i], i))
                logs.append(names[i])
            else:
                pre.append('let %s = <wow_world_messages::%s::%s>::try_from(l[%d]).map_err(|_| format!("lane %d: {} is not a declared %s", l[%d]))?;'
                           % (names[i], exp, lane, i, i, lane, i))
                logs.append("%s.as_int()" % names[i])
        call_args = ", ".join(names)
        log = 'log("u8x4", json!([%s]))' % ", ".join(logs)
    elif sig == "slot_guid":
        pre = ['let slot = <wow_world_messages::%s::%s>::try_from(index(a)? as u8).map_err(|_| "index is not a declared slot".to_string())?;'
               % (exp, a["slot_ty"]),
               "let v = w_guid(a)?;"]
        call_args = "slot, v"
        log = 'log_idx("slot_guid", jbytes(&v.guid().to_le_bytes()), slot.as_int() as u64)'
    elif sig == "struct":
        fn = "%s_%s" % (exp, a["struct"].lower())
        pre = ['let i = <wow_world_messages::%s::%s>::try_from(index(a)? as u16).map_err(|_| "index out of range of the index type".to_string())?;'
               % (exp, a["index_ty"]),
               "let idx = index(a)?;",
               "let s = dec_%s(members(a)?)?;" % fn]
        call_args = "s, i"
        log = 'log_idx("struct", enc_%s(&s), idx)' % fn
    body = " ".join(pre)
    tup = {"i32": "v", "f32": "v", "guid": "v", "u16x2": "x, y", "u8x4": "x0, x1, x2, x3",
           "slot_guid": "slot, v", "struct": "s, i"}[sig]
    if builder:
        return ('            "%s" => { let r: Result<_, String> = (|| { %s let lg = %s; Ok(((%s,), lg)) })();'
                ' match r { Ok(((%s,), lg)) => (b.%s(%s), Ok(lg)), Err(e) => (b, Err(e)) } }'
                % (name, body, log, tup, tup, name, tup))
    return '            "%s" => { %s let lg = %s; m.%s(%s); Ok(lg) }' % (name, body, log, name, tup)


def _getter_arm(a, exp):
    g = a["get"]
    sig = a["sig"]
    if sig == "i32" or sig == "f32":
        return '            "%s" => Ok(m.%s().map(|v| jbytes(&v.to_le_bytes()))),' % (g, g)
    if sig == "guid":
        return '            "%s" => Ok(m.%s().map(|v| jbytes(&v.guid().to_le_bytes()))),' % (g, g)
    if sig == "u16x2":
        return '            "%s" => Ok(m.%s().map(|(x, y)| json!([x, y]))),' % (g, g)
    if sig == "u8x4":
        parts = []
        for i, lane in enumerate(a["lanes"]):
            parts.append("x%d" % i if lane is None else "x%d.as_int()" % i)
        return '            "%s" => Ok(m.%s().map(|(x0, x1, x2, x3)| json!([%s]))),' % (g, g, ", ".join(parts))
    if sig == "slot_guid":
        return ('            "%s" => { let slot = <wow_world_messages::%s::%s>::try_from(index(a)? as u8).map_err(|_| "index is not a declared slot".to_string())?;'
                ' Ok(m.%s(slot).map(|v| jbytes(&v.guid().to_le_bytes()))) }' % (g, exp, a["slot_ty"], g))
    if sig == "struct":
        fn = "%s_%s" % (exp, a["struct"].lower())
        return ('            "%s" => { let i = <wow_world_messages::%s::%s>::try_from(index(a)? as u16).map_err(|_| "index out of range of the index type".to_string())?;'
                ' Ok(m.%s(i).map(|s| enc_%s(&s))) }' % (g, exp, a["index_ty"], g, fn))
    raise AssertionError(sig)


def render_rust(front):
    o = []
    o.append("// GENERATED by tools/gen_mask.py from the public accessor signatures of wow_world_messages and the")
    o.append("// published docs (member names of VisibleItem / SkillInfo). Do not edit; regenerated by ./check C13.")
    o.append("#![allow(clippy::all, unused_variables, unused_imports, unused_parens, non_snake_case, dead_code)]")
    o.append("use super::*;")
    o.append("use serde_json::{json, Value};")
    o.append("use std::convert::TryFrom;")
    o.append("use wow_world_messages::Guid;")
    o.append("")
    for exp in EXPS:
        for sname in sorted(front.structs):
            if exp in front.structs[sname]:
                src, _ = _struct_codec(exp, sname, front.structs[sname][exp], front.definers)
                o.append(src)
                o.append("")
    for exp in EXPS:
        for kind in KIND_ORDER:
            rk = RUST_KIND[kind]
            ty = "wow_world_messages::%s::Update%s" % (exp, rk)
            accs = front.acc[(exp, kind)]
            o.append("impl MaskKind for %s {" % ty)
            o.append("    type Builder = %sBuilder;" % ty)
            o.append('    const EXP: &\'static str = "%s";' % exp)
            o.append('    const KIND: &\'static str = "%s";' % kind)
            o.append("    fn new_mask() -> Self { <%s>::new() }" % ty)
            o.append("    fn new_builder() -> Self::Builder { <%s>::builder() }" % ty)
            o.append("    fn finalize(b: Self::Builder) -> Self { b.finalize() }")
            o.append("    fn k_dirty_reset(&mut self) { self.dirty_reset() }")
            o.append("    fn k_mark_fully_dirty(&mut self) { self.mark_fully_dirty() }")
            o.append("    fn k_has_any_dirty_fields(&self) -> bool { self.has_any_dirty_fields() }")
            o.append("    fn k_is_bit_dirty(&self, bit: u16) -> bool { self.is_bit_dirty(bit) }")
            o.append("    fn into_message(self) -> Msg { Msg::%s(msg_%s(wow_world_messages::%s::UpdateMask::%s(self))) }"
                     % (exp.capitalize(), exp, exp, rk))
            o.append("    fn from_update_mask(m: AnyMask) -> Result<Self, String> {")
            o.append("        match m { AnyMask::%s(wow_world_messages::%s::UpdateMask::%s(x)) => Ok(x),"
                     % (exp.capitalize(), exp, rk))
            o.append('            other => Err(format!("decoded as {}", other.describe())) }')
            o.append("    }")
            o.append("    fn set(&mut self, acc: &str, a: &Value) -> Result<Value, String> {")
            o.append("        let m = self;")
            o.append("        match acc {")
            for a in accs:
                if a["has_mask"]:
                    o.append(_setter_arm(a, exp, "m", False))
            o.append('            _ => Err(format!("unknown setter {acc}")),')
            o.append("        }")
            o.append("    }")
            o.append("    fn bset(b: Self::Builder, acc: &str, a: &Value) -> (Self::Builder, Result<Value, String>) {")
            o.append("        match acc {")
            for a in accs:
                if a["has_builder"]:
                    o.append(_setter_arm(a, exp, "b", True))
            o.append('            _ => (b, Err(format!("unknown builder setter {acc}"))),')
            o.append("        }")
            o.append("    }")
            o.append("    fn get(&self, acc: &str, a: &Value) -> Result<Option<Value>, String> {")
            o.append("        let m = self;")
            o.append("        match acc {")
            for a in accs:
                o.append(_getter_arm(a, exp))
            o.append('            _ => Err(format!("unknown getter {acc}")),')
            o.append("        }")
            o.append("    }")
            o.append("}")
            o.append("")
    # dispatch over (exp, kind)
    o.append("pub fn dispatch(exp: &str, kind: &str, req: &Value) -> Option<Value> {")
    o.append("    Some(match (exp, kind) {")
    for exp in EXPS:
        for kind in KIND_ORDER:
            o.append('        ("%s", "%s") => run_request::<wow_world_messages::%s::Update%s>(req),'
                     % (exp, kind, exp, RUST_KIND[kind]))
    o.append("        _ => return None,")
    o.append("    })")
    o.append("}")
    return "\n".join(o) + "\n"


def write_if_changed(path, text):
    os.makedirs(os.path.dirname(path), exist_ok=True)
    if os.path.exists(path) and open(path, encoding="utf-8").read() == text:
        return False
    tmp = path + ".tmp"
    with open(tmp, "w", encoding="utf-8") as f:
        f.write(text)
    os.replace(tmp, path)
    return True


def generate():
    front = Front()
    changed = write_if_changed(GEN_RS, render_rust(front))
    return front, changed


def main():
    front, changed = generate()
    n = sum(len(v) for v in front.acc.values())
    nset = sum((1 if a["has_mask"] else 0) + (1 if a["has_builder"] else 0) for v in front.acc.values() for a in v)
    print("gen_mask: %d accessor families bound (%d setters incl. builders), %d unmapped, %d rows without accessor; %s %s"
          % (n, nset, len(front.unmapped), len(front.rows_without_accessor), GEN_RS,
             "rewritten" if changed else "unchanged"))
    for u in front.unmapped[:20]:
        print("  unmapped:", u)
    return 0


if __name__ == "__main__":
    sys.exit(main())
