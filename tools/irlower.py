"""Lowerings for C10 (IR schema validity + faithfulness).  Purely structural / lexical:

  typed(x)           JSON value -> typed encoding for spec/Jtd.tla (TLC values do not carry JSON's
                     types): {"t":"obj","f":{key: node}} | {"t":"arr","v":[node]} | {"t":"str","s"}
                     | {"t":"int","n":int}            integral number with |n| < 2^31
                     | {"t":"big","neg":bool,"d":[decimal digits]}   integral number beyond 31 bits
                     | {"t":"frac","s":repr}          non-integral number
                     | {"t":"bool","b":bool} | {"t":"null"}
  schema_lower(s)    JTD schema -> uniform records for Jtd.tla (form tag + the form's keywords)
  ir_records(ir)     IR document -> one record per IR object (enum/flag/struct/message/test/
                     update-mask struct); nulls dropped (TLC's Json rejects null), numbers beyond
                     31 bits as {"big": decimal}, non-integral as {"flt": repr}; every embedded
                     `struct_data` copy is replaced by a pointer to the deep-equal top-level struct
                     (ptr = 0 if there is none); `prepared_objects` is dropped (not part of C10).
  src_records(corpus) front-end object table -> uniform records; number literals additionally as
                     decimal strings (lexical meaning of the literal, lang-spec number formats),
                     version tag values split into integer patterns.
  ir_to_corpus(ir)   IR document -> front-end shaped object table (used for the behavioural
                     cross-check: spec/WowmWire.tla is run over it through tools/lower.py).
"""
import json
import re

from tools import wowm_front as F

# ------------------------------------------------------------------------------------------------
# typed JSON (Jtd.tla)
# ------------------------------------------------------------------------------------------------

def typed(x):
    if x is None:
        return {"t": "null"}
    if x is True or x is False:
        return {"t": "bool", "b": x}
    if isinstance(x, int):
        if -(1 << 31) < x < (1 << 31):
            return {"t": "int", "n": x}
        return {"t": "big", "neg": x < 0, "d": [int(c) for c in str(abs(x))]}
    if isinstance(x, float):
        if x == int(x) and abs(x) < (1 << 31):
            return {"t": "int", "n": int(x)}       # RFC 8927: 3.0 is an integer value
        return {"t": "frac", "s": repr(x)}
    if isinstance(x, str):
        return {"t": "str", "s": x}
    if isinstance(x, list):
        return {"t": "arr", "v": [typed(v) for v in x]}
    if isinstance(x, dict):
        return {"t": "obj", "f": {k: typed(v) for k, v in x.items()}}
    raise TypeError(type(x))


FORMS = ("ref", "type", "enum", "elements", "properties", "values", "discriminator")


def schema_lower(s):
    """Uniform record of one JTD schema (RFC 8927 section 2.2). Keys other than the schema keywords
    (metadata) are dropped; `definitions` is only lowered at the root."""
    r = {"form": "empty", "nullable": bool(s.get("nullable", False)), "ref": "", "type": "", "enum": [],
         "elements": {}, "props": {}, "oprops": {}, "hasprops": False, "hasoprops": False,
         "additional": bool(s.get("additionalProperties", False)), "values": {}, "disc": "", "mapping": {}}
    known = {"nullable", "metadata", "definitions", "additionalProperties", "ref", "type", "enum", "elements",
             "properties", "optionalProperties", "values", "discriminator", "mapping"}
    for k in s:
        if k not in known:
            raise ValueError("not a JTD schema keyword: %r" % k)
    if "ref" in s:
        r["form"], r["ref"] = "ref", s["ref"]
    elif "type" in s:
        r["form"], r["type"] = "type", s["type"]
    elif "enum" in s:
        r["form"], r["enum"] = "enum", list(s["enum"])
    elif "elements" in s:
        r["form"], r["elements"] = "elements", schema_lower(s["elements"])
    elif "properties" in s or "optionalProperties" in s:
        r["form"] = "properties"
        r["hasprops"], r["hasoprops"] = "properties" in s, "optionalProperties" in s
        r["props"] = {k: schema_lower(v) for k, v in s.get("properties", {}).items()}
        r["oprops"] = {k: schema_lower(v) for k, v in s.get("optionalProperties", {}).items()}
    elif "values" in s:
        r["form"], r["values"] = "values", schema_lower(s["values"])
    elif "discriminator" in s:
        r["form"], r["disc"] = "discriminator", s["discriminator"]
        r["mapping"] = {k: schema_lower(v) for k, v in s["mapping"].items()}
    return r


def schema_root(s):
    return {"root": schema_lower(s), "defs": {k: schema_lower(v) for k, v in s.get("definitions", {}).items()}}


# ------------------------------------------------------------------------------------------------
# IR -> records for IrRefine.tla
# ------------------------------------------------------------------------------------------------

DROPPED_KEYS = ("prepared_objects",)
LOOSE_TEXT = ("comment", "display")      # free text, compared modulo surrounding whitespace
SECTIONS = ("login", "world")
COLLS = ("enums", "flags", "structs", "messages")
EXPANSIONS = ("vanilla", "tbc", "wrath")


def _plain(x, ptr_of):
    """nulls dropped, wide / non-integral numbers tagged, struct_data -> pointer."""
    if isinstance(x, bool) or isinstance(x, str):
        return x
    if isinstance(x, int):
        return x if -(1 << 31) < x < (1 << 31) else {"big": str(x)}
    if isinstance(x, float):
        return {"flt": repr(x)}
    if isinstance(x, list):
        return [_plain(v, ptr_of) for v in x if v is not None]
    if isinstance(x, dict):
        out = {}
        for k, v in x.items():
            if v is None or k in DROPPED_KEYS:
                continue
            if k == "struct_data":
                out[k] = {"name": v.get("name", ""), "ptr": ptr_of(v)}
            elif k in LOOSE_TEXT and isinstance(v, str):
                out[k] = v.strip()
            else:
                out[k] = _plain(v, ptr_of)
        return out
    raise TypeError(type(x))


def ir_objects(ir):
    """Yields (sect, coll, owner_index_or_None, raw IR object) in a fixed order; the 1-based position
    in this order is the IR id.  Top-level objects first, then the tests of every container, then
    the update-mask structs of the three update-mask tables."""
    top = []
    for sect in SECTIONS:
        for coll in COLLS:
            for o in ir.get(sect, {}).get(coll, []):
                top.append((sect, coll, None, o))
    out = list(top)
    for idx, (sect, coll, _, o) in enumerate(top):
        for t in o.get("tests", []) if isinstance(o, dict) else []:
            out.append((sect, "tests", idx + 1, t))
    for e in EXPANSIONS:
        for u in ir.get(e + "_update_mask", []):
            dt = u.get("data_type", {})
            c = dt.get("content") if isinstance(dt, dict) else None
            if isinstance(c, dict) and "update_mask_struct" in c:
                out.append((e, "update_mask", None, c["update_mask_struct"]))
    return out


def ir_records(ir):
    objs = ir_objects(ir)
    canon = {}
    for i, (sect, coll, owner, o) in enumerate(objs):
        if coll == "structs":
            canon.setdefault(json.dumps(o, sort_keys=True), i + 1)

    def ptr_of(sd):
        return canon.get(json.dumps(sd, sort_keys=True), 0)

    recs = []
    for i, (sect, coll, owner, o) in enumerate(objs):
        fi = o.get("file_info", {}) if isinstance(o, dict) else {}
        body = _plain(o, ptr_of)
        if coll != "tests":
            body.pop("tests", None)          # tests are IR objects of their own (owner = this id)
        recs.append({"id": i + 1, "sect": sect, "coll": coll, "owner": owner or 0,
                     "name": o.get("name", o.get("subject", "")) if isinstance(o, dict) else "",
                     "file": str(fi.get("file_name", "")).replace("wow_message_parser/wowm/", ""),
                     "line": fi.get("start_position", 0) if isinstance(fi.get("start_position", 0), int) else 0,
                     "o": body})
    return recs


# ------------------------------------------------------------------------------------------------
# front-end object table -> records for IrRefine.tla
# ------------------------------------------------------------------------------------------------

_FLOAT = re.compile(r"-?[0-9]+(\.[0-9]+)?")


def rawval(raw):
    """A wowm value token: `text` as written (quotes included), `raw` without the quotes, whether it
    was quoted, and its lexical meaning (number formats of lang-spec.md): `dec` decimal string when
    it is an integer literal (a quoted string packs big-endian), `flt` float repr when it is a
    decimal literal."""
    if raw is None:
        return {"text": "", "raw": "", "quoted": False, "dec": "", "flt": "", "some": False}
    if isinstance(raw, dict):
        return {"text": '"' + raw["str"] + '"', "raw": raw["str"], "quoted": True, "dec": str(F.parse_value(raw)),
                "flt": "", "some": True}
    v = F.parse_value(raw)
    return {"text": raw, "raw": raw, "quoted": False, "dec": str(v) if isinstance(v, int) else "",
            "flt": repr(float(raw)) if _FLOAT.fullmatch(raw) else "", "some": True}


def _split_patterns(vals):
    pats, allf = [], False
    for val in vals:
        for p in val.split():
            if p == "*":
                allf = True
            else:
                pats.append([int(x) for x in p.split(".")])
    return pats, allf


def _tags(tags):
    return {k: ([x.strip() for x in v] if k in LOOSE_TEXT else list(v)) for k, v in tags.items()}


def _versions(tags):
    wp, wa = _split_patterns(tags.get("versions", []))
    pp, pa = _split_patterns(tags.get("paste_versions", []))
    lp, la = _split_patterns(tags.get("login_versions", []))
    return {"hasw": "versions" in tags, "wpats": wp, "wall": wa,
            "hasp": "paste_versions" in tags, "ppats": pp, "pall": pa,
            "hasl": "login_versions" in tags, "lvs": [p[0] for p in lp], "lall": la}


def _member(m):
    if m["m"] == "decl":
        a = m["array"]
        c = rawval(m["const"])
        return {"m": "decl", "name": m["name"], "ty": m["type"], "up": m["upcast"] or "",
                "arr": a["size"] if a else "none", "n": str(a["n"]) if a and a["size"] == "fixed" else "",
                "cf": a["field"] if a and a["size"] == "var" else "", "const": c, "tags": _tags(m["tags"])}
    if m["m"] == "if":
        return {"m": "if", "arms": [{"conds": [{"var": c["var"], "op": c["op"], "val": rawval(c["val"])["raw"]}
                                                for c in arm["conds"]],
                                     "body": [_member(x) for x in arm["body"]]} for arm in m["arms"]],
                "haselse": m["else"] is not None, "els": [_member(x) for x in (m["else"] or [])]}
    if m["m"] == "optional":
        return {"m": "opt", "name": m["name"], "body": [_member(x) for x in m["body"]], "tags": _tags(m["tags"])}
    return {"m": "unimpl"}


def _tfield(f):
    v = f["value"]
    if "v" in v:
        val = {"t": "v", "v": [rawval(x) for x in v["v"]]}
    elif "array" in v:
        val = {"t": "array", "v": [rawval(x) for x in v["array"]]}
    elif "obj" in v:
        val = {"t": "obj", "f": [_tfield(x) for x in v["obj"]]}
    else:
        val = {"t": "objs", "f": [[_tfield(x) for x in o] for o in v["objs"]]}
    return {"name": f["name"], "val": val, "tags": _tags(f["tags"])}


def src_records(corpus):
    recs = []
    for i, o in enumerate(corpus):
        r = {"id": i + 1, "kind": o["kind"], "name": o["name"], "file": o["file"], "line": o["line"],
             "sect": o.get("corpus", ""), "tags": _tags(o["tags"]), "ver": _versions(o["tags"])}
        if o["kind"] in ("enum", "flag"):
            r["base"] = o["base"]
            r["enums"] = [{"n": e["name"], "val": rawval(e["value"]), "tags": _tags(e["tags"])} for e in o["enumerators"]]
        elif o["kind"] == "test":
            r["fields"] = [_tfield(f) for f in o["fields"]]
            r["bytes"] = [rawval(b) for b in o["bytes"]]
        else:
            r["op"] = rawval(o["opcode"])
            r["members"] = [_member(m) for m in o["members"]]
        recs.append(r)
    return recs


def write_ndjson(path, recs):
    with open(path, "w") as f:
        for r in recs:
            f.write(json.dumps(r, separators=(",", ":")) + "\n")


def name_index(recs):
    idx = {}
    for r in recs:
        idx.setdefault(r["name"], []).append(r["id"])
    return idx


def prepare(ir, corpus, outdir):
    """Writes src.ndjson, ir.ndjson, srcidx.json, iridx.json; returns (src records, ir records, env)."""
    import os
    os.makedirs(outdir, exist_ok=True)
    S, I = src_records(corpus), ir_records(ir)
    write_ndjson(os.path.join(outdir, "src.ndjson"), S)
    write_ndjson(os.path.join(outdir, "ir.ndjson"), I)
    with open(os.path.join(outdir, "srcidx.json"), "w") as f:
        json.dump(name_index(S), f)
    with open(os.path.join(outdir, "iridx.json"), "w") as f:
        json.dump(name_index(I), f)
    env = {"C10_SRC": os.path.join(outdir, "src.ndjson"), "C10_IR": os.path.join(outdir, "ir.ndjson"),
           "C10_SRCIDX": os.path.join(outdir, "srcidx.json"), "C10_IRIDX": os.path.join(outdir, "iridx.json")}
    return S, I, env


# ------------------------------------------------------------------------------------------------
# IR -> front-end shaped object table (behavioural cross-check through tools/lower.py + WowmWire)
# ------------------------------------------------------------------------------------------------
# The same spelling tables as Abs in spec/IrRefine.tla (IntTy, BoolTy, BuiltinName, KindOf).

_BOOL = {"U8": "Bool", "U16": "Bool16", "U32": "Bool32", "U64": "Bool64"}
_BUILTIN = {"FloatingPoint": "f32", "MonsterMoveSpline": "MonsterMoveSplines"}
_KIND = {"Struct": "struct", "CLogin": "clogin", "SLogin": "slogin", "Msg": "msg", "CMsg": "cmsg", "SMsg": "smsg"}


def _c_version_tags(tags):
    v = tags["version"]
    vt = v["version_type"]
    if v["version_type_tag"] == "login":
        val = "*" if vt["login_version_tag"] == "all" else " ".join(str(n) for n in vt["versions"])
        return {"login_versions": [val]}
    if vt["world_version_tag"] == "all":
        return {"versions": ["*"]}
    pats = []
    for p in vt["versions"]:
        pats.append(".".join(str(p[k]) for k in ("major", "minor", "patch", "build") if p.get(k) is not None))
    return {"versions": [" ".join(pats)]}


def _c_otags(tags):
    t = _c_version_tags(tags)
    for k in ("compressed", "unimplemented", "non_network_type", "used_in_update_mask"):
        if tags.get(k):
            t[k] = ["true"]
    if tags.get("comment"):
        t["comment"] = [tags["comment"]]
    return t


def _c_mtags(tags, compressed=False):
    t = {}
    if tags.get("comment"):
        t["comment"] = [tags["comment"]]
    if tags.get("display"):
        t["display"] = [tags["display"]]
    if tags.get("maximum_length"):
        t["maximum_length"] = [tags["maximum_length"]]
    if tags.get("valid_range"):
        t["valid_range"] = ["%s %s" % (tags["valid_range"]["from"], tags["valid_range"]["to"])]
    if compressed:
        t["compressed"] = ["true"]
    return t


def _c_def(c):
    d = c["data_type"]
    t = d["data_type_tag"]
    ty, up, arr, comp = t, None, None, False
    if t == "Integer":
        ty = d["integer_type"].lower()
    elif t == "Bool":
        ty = _BOOL[d["integer_type"]]
    elif t in ("Enum", "Flag"):
        ty = d["type_name"]
        up = d["integer_type"].lower() if d["upcast"] else None
    elif t == "Struct":
        ty = d["struct_data"]["name"]
    elif t == "Array":
        it = d["inner_type"]
        at = it["array_type_tag"]
        ty = it["integer_type"].lower() if at == "Integer" else it["struct_data"]["name"] if at == "Struct" else at
        st = d["size"]["array_size_tag"]
        arr = {"size": "fixed", "n": int(d["size"]["size"])} if st == "Fixed" else \
            {"size": "var", "field": d["size"]["size"]} if st == "Variable" else {"size": "endless"}
        comp = bool(d["compressed"])
    else:
        ty = _BUILTIN.get(t, t)
    const = None
    if c.get("size_of_fields_before_size") is not None:
        const = "self.size"
    elif c.get("constant_value") is not None:
        const = c["constant_value"]["value"]
    return {"m": "decl", "type": ty, "upcast": up, "array": arr, "name": c["name"], "const": const,
            "tags": _c_mtags(c["tags"], comp)}


def _c_arms(c):
    op = "&" if c["definer_type"] == "Flag" else "=="
    arms = [{"conds": [{"var": c["variable_name"], "op": op, "val": v} for v in c["values"]],
             "body": _c_members(c["members"])}]
    for e in c["else_if_statements"]:
        arms += _c_arms(e)
    return arms


def _c_members(ms):
    out = []
    for m in ms:
        c = m["struct_member_content"]
        if m["struct_member_tag"] == "Definition":
            out.append(_c_def(c))
        else:
            out.append({"m": "if", "arms": _c_arms(c), "else": None})
    return out


def ir_to_corpus(ir):
    """Front-end shaped records (definers and containers; tests are not wire objects)."""
    out = []
    for sect, coll, owner, o in ir_objects(ir):
        fi = o["file_info"]
        base = {"file": fi["file_name"].replace("wow_message_parser/wowm/", ""), "line": fi["start_position"],
                "corpus": sect if sect in SECTIONS else "world", "name": o.get("name", "")}
        if coll in ("enums", "flags"):
            r = dict(base, kind="flag" if o["definer_type"] == "Flag" else "enum", base=o["integer_type"].lower(),
                     enumerators=[{"name": e["name"], "value": e["value"]["value"], "tags": _c_mtags(e["tags"])}
                                  for e in o["enumerators"]], tags=_c_otags(o["tags"]))
        elif coll in ("structs", "messages"):
            ot = o["object_type"]
            members = _c_members(o["members"])
            if o.get("optional") is not None:
                members.append({"m": "optional", "name": o["optional"]["name"],
                                "body": _c_members(o["optional"]["members"]), "tags": {}})
            r = dict(base, kind=_KIND[ot["container_type_tag"]],
                     opcode=str(ot["opcode"]) if "opcode" in ot else None, members=members, tags=_c_otags(o["tags"]))
        elif coll == "update_mask":
            r = dict(base, kind="struct", opcode=None, tags=_c_otags(o["tags"]),
                     members=[_c_def(x["member"]) for w in o["members"] for x in w])
        else:
            continue
        out.append(r)
    return out
