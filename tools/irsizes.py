"""Extracts the declared sizes of every container from the regenerated intermediate representation
and the size-guard literal from the generated readers; pairs them with front-end objects by source
position (file, line) - a positional identity, no semantics."""
import glob
import json
import os
import re

from tools import common as C

INF = 100000000
EXPS = {"vanilla": [1, 12], "tbc": [2, 4, 3, 8606], "wrath": [3, 3, 5, 12340]}


def ir_containers(ir):
    for corpus in ("login", "world"):
        for kind in ("structs", "messages"):
            for o in ir[corpus][kind]:
                yield corpus, o


_AUTOGEN = re.compile(r"Auto generated from the original `wowm` in file \[`wow_message_parser/wowm/([^`:]+):(\d+)`\]")


def guard_literals(repo=C.REPO):
    """(wowm file, line) -> (gmin, gmax) parsed from the `read_inner` size guard of the generated file
    that documents itself as generated from that position."""
    out = {}
    pats = [
        (re.compile(r"if !\((\d+)\.\.=(\d+)\)\.contains\(&body_size\)"), lambda m: (int(m.group(1)), int(m.group(2)))),
        (re.compile(r"if body_size != (\d+) \{"), lambda m: (int(m.group(1)), int(m.group(1)))),
        (re.compile(r"if body_size > (\d+) \{"), lambda m: (0, int(m.group(1)))),
        (re.compile(r"if body_size < (\d+) \{"), lambda m: (int(m.group(1)), INF)),
    ]
    for root in ("wow_world_messages/src/world", "wow_login_messages/src/logon"):
        for p in glob.glob(os.path.join(repo, root, "**", "*.rs"), recursive=True):
            text = open(p, encoding="utf-8", errors="replace").read()
            mg = _AUTOGEN.search(text)
            i = text.find("fn read_inner(")
            if i < 0 or not mg:
                continue
            head = text[i:i + 400]
            for rx, f in pats:
                mm = rx.search(head)
                if mm:
                    lo, hi = f(mm)
                    rel = os.path.relpath(p, repo).replace(os.sep, "/")
                    scope = "shared"
                    for e in ("vanilla", "tbc", "wrath"):
                        if "/world/%s/" % e in rel:
                            scope = e
                    mv = re.search(r"/logon/version_(\d+)/", rel)
                    if mv:
                        scope = "login%s" % mv.group(1)
                    out.setdefault((mg.group(1), int(mg.group(2))), []).append((scope, min(lo, INF), min(hi, INF)))
                    break
    return out


def ir_contexts(v):
    """Contexts (expansion / login protocol version) an IR object says it is valid for."""
    vt = v["version_type"]
    out = []
    if v["version_type_tag"] == "login":
        lvs = [2, 3, 5, 6, 7, 8] if vt["login_version_tag"] == "all" else vt["versions"]
        out = [{"exp": "login", "lv": n} for n in lvs if n in (2, 3, 5, 6, 7, 8)]
    else:
        for e, ver in EXPS.items():
            if vt["world_version_tag"] == "all":
                out.append({"exp": e, "lv": 0})
                continue
            for p in vt["versions"]:
                pat = [p[k] for k in ("major", "minor", "patch", "build") if p.get(k) is not None]
                if ver[:len(pat)] == pat:
                    out.append({"exp": e, "lv": 0})
                    break
    return out


def pos_index(lw):
    idx = {}
    for o in lw.objects:
        idx[(o["file"], o["line"])] = o
    return idx


def build_decl(ir_path, lw, outpath, repo=C.REPO):
    """Writes the ndjson TLC loads (one record per container x context it is generated for)."""
    ir = json.load(open(ir_path))
    idx = pos_index(lw)
    guards = guard_literals(repo)
    recs, unmatched = [], []
    for corpus, o in ir_containers(ir):
        fi = o["file_info"]
        fn = fi["file_name"].replace("wow_message_parser/wowm/", "")
        fe = idx.get((fn, fi["start_position"]))
        if fe is None:
            unmatched.append((o["name"], fn, fi["start_position"]))
            continue
        sz = o["sizes"]
        mx = sz["maximum_size"]
        gl = guards.get((fn, fi["start_position"]), [])
        ctxs = []
        for cx in ir_contexts(o["tags"]["version"]):
            want = cx["exp"] if cx["exp"] != "login" else "login%d" % cx["lv"]
            g = [x for x in gl if x[0] == want] or [x for x in gl if x[0] == "shared"]
            if cx["exp"] == "login" and not g:
                # login objects shared by several protocol versions live in the lowest version's module
                g = sorted(gl)[:1] if len(set((x[1], x[2]) for x in gl)) == 1 else []
            cx = dict(cx)
            cx.update({"hasguard": bool(g), "gmin": g[0][1] if g else 0, "gmax": g[0][2] if g else 0})
            ctxs.append(cx)
        recs.append({"oid": fe["id"], "min": min(sz["minimum_size"], INF), "max": INF if mx >= INF else mx,
                     "const": bool(sz["constant_sized"]), "ctxs": ctxs})
    with open(outpath, "w") as f:
        for r in recs:
            f.write(json.dumps(r) + "\n")
    return recs, unmatched, guards
