"""Lowering of the front-end's object table into the shape TLC can load (DESIGN.md section 4.1).

Purely syntactic re-shaping - no resolution, no version matching, no sizes:
  * member trees become numbered blocks (a block = list of instructions) so the TLA+ walker keeps
    (block, pc) frames instead of tree paths;
  * every record has every key (TLC's Json module rejects null, TLA+ records need uniform fields);
  * wire integers (enumerator values, opcodes, constants) are little-endian byte lists, never JSON
    numbers (TLC ints are 32 bit and the Json module wraps silently); flag values additionally as
    the list of their set bit positions;
  * version tags are split into int-list patterns ("*" -> all flag);
  * name index (name -> object ids) and, per declaration, two purely lexical scans of the SAME
    container: is the field named as `[field]` count by a later array (cnt), is it named as the
    variable of a later `if` (ctl, with the list of enumerator names it is compared with).

Output files (ndjson, 1-based line number = id): objects.ndjson, blocks.ndjson; index.json.
"""
import json
import os
import sys

from tools import wowm_front as F

BUILTIN = [
    "u8", "u16", "u32", "u64", "i8", "i16", "i32", "i64", "u48", "f32", "Bool", "Bool32", "PackedGuid", "Guid",
    "NamedGuid", "DateTime", "CString", "SizedCString", "String", "UpdateMask", "MonsterMoveSplines",
    "AuraMask", "AchievementDoneArray", "AchievementInProgressArray", "EnchantMask",
    "InspectTalentGearMask", "Gold", "Population", "Level", "Level16", "Level32",
    "VariableItemRandomProperty", "AddonArray", "IpAddress", "Seconds", "Milliseconds", "Spell",
    "Spell16", "Item", "CacheMask",
]

INT_WIDTH = {"u8": 1, "u16": 2, "u32": 4, "u64": 8, "i8": 1, "i16": 2, "i32": 4, "i64": 8, "u48": 6}


def le_bytes(v, width):
    if v < 0:
        v += 1 << (8 * width)
    return [(v >> (8 * i)) & 0xFF for i in range(width)]


def bits_of(v):
    return [i for i in range(64) if (v >> i) & 1]


def patterns(tagvals):
    """versions tag values -> (list of int-list patterns, all flag)"""
    pats, allf = [], False
    for val in tagvals:
        for p in val.split():
            if p == "*":
                allf = True
            else:
                pats.append([int(x) for x in p.split(".")])
    return pats, allf


def login_versions(tagvals):
    out, allf = [], False
    for val in tagvals:
        for p in val.split():
            if p == "*":
                allf = True
            else:
                out.append(int(p))
    return out, allf


class Lowerer:
    def __init__(self):
        self.blocks = []   # list of instruction lists
        self.objects = []

    def new_block(self, members, cont_scan):
        bid = len(self.blocks) + 1
        self.blocks.append(None)
        ins = []
        for m in members:
            ins.append(self.instr(m, cont_scan))
        self.blocks[bid - 1] = {"id": bid, "ins": ins}
        return bid

    @staticmethod
    def blank():
        return {"op": "", "name": "", "ty": "", "builtin": False, "up": "", "upw": 0, "arr": "none", "n": 0,
                "cf": "", "hasc": False, "cbytes": [], "selfsize": False, "ctl": False, "tested": [],
                "cnt": False, "free": [], "comp": False, "hv": False, "vlo": 0, "vhi": 0, "maxlen": 0,
                "arms": [], "els": 0, "blk": 0}

    def instr(self, m, scan):
        r = self.blank()
        if m["m"] == "decl":
            r["op"] = "decl"
            r["name"] = m["name"]
            r["ty"] = m["type"]
            r["builtin"] = m["type"] in BUILTIN
            if m["upcast"]:
                r["up"] = m["upcast"]
                r["upw"] = INT_WIDTH.get(m["upcast"], 0)
            a = m["array"]
            if a:
                r["arr"] = a["size"]
                if a["size"] == "fixed":
                    r["n"] = a["n"]
                elif a["size"] == "var":
                    r["cf"] = a["field"]
            if m["const"] is not None:
                r["hasc"] = True
                if m["const"] == "self.size":
                    r["selfsize"] = True
                else:
                    v = F.parse_value(m["const"])
                    if isinstance(v, int):
                        r["cbytes"] = le_bytes(v, 8)
                    else:
                        raise ValueError("unsupported constant %r" % (m["const"],))
            r["cnt"] = m["name"] in scan["counts"]
            if m["name"] in scan["ctl"]:
                r["ctl"] = True
                r["tested"] = sorted(scan["ctl"][m["name"]])
                r["free"] = sorted(scan["ctl"][m["name"]] - scan["entangled"].get(m["name"], set()))
            tags = m["tags"]
            if "compressed" in tags:
                r["comp"] = tags["compressed"][-1] == "true"
            if "valid_range" in tags:
                lo, hi = tags["valid_range"][-1].split()
                r["hv"], r["vlo"], r["vhi"] = True, int(lo), int(hi)
            if "maximum_length" in tags:
                r["maxlen"] = int(tags["maximum_length"][-1])
        elif m["m"] == "if":
            r["op"] = "if"
            for arm in m["arms"]:
                conds = [{"var": c["var"], "cmp": c["op"], "val": c["val"] if isinstance(c["val"], str) else json.dumps(c["val"])}
                         for c in arm["conds"]]
                r["arms"].append({"conds": conds, "blk": self.new_block(arm["body"], scan)})
            if m["else"] is not None:
                r["els"] = self.new_block(m["else"], scan)
        elif m["m"] == "optional":
            r["op"] = "opt"
            r["name"] = m["name"]
            r["blk"] = self.new_block(m["body"], scan)
        elif m["m"] == "unimplemented":
            r["op"] = "unimpl"
        return r

    @staticmethod
    def scan_container(members):
        """Lexical scan: names used as array counts and as `if` variables (with compared names).
        `entangled`: compared names of a variable that occur in an `if` with several arms, an else,
        several `||` conditions, or nested inside another `if` on the same variable - the others
        ("free") are tested only by plain independent `if (v & NAME) { .. }` statements."""
        counts, ctl, ent = set(), {}, {}

        def walk(ms, enclosing):
            for m in ms:
                if m["m"] == "decl":
                    if m["array"] and m["array"]["size"] == "var":
                        counts.add(m["array"]["field"])
                elif m["m"] == "if":
                    simple = len(m["arms"]) == 1 and m["else"] is None and len(m["arms"][0]["conds"]) == 1 \
                        and m["arms"][0]["conds"][0]["op"] == "&"
                    vars_here = set()
                    for arm in m["arms"]:
                        for c in arm["conds"]:
                            if isinstance(c["val"], str):
                                ctl.setdefault(c["var"], set()).add(c["val"])
                                vars_here.add(c["var"])
                                if not simple or c["var"] in enclosing:
                                    ent.setdefault(c["var"], set()).add(c["val"])
                    for arm in m["arms"]:
                        walk(arm["body"], enclosing | vars_here)
                    if m["else"] is not None:
                        walk(m["else"], enclosing | vars_here)
                elif m["m"] == "optional":
                    walk(m["body"], enclosing)
        walk(members, set())
        return {"counts": counts, "ctl": ctl, "entangled": ent}

    @staticmethod
    def has_unimplemented(members):
        for m in members:
            if m["m"] == "unimplemented":
                return True
            if m["m"] == "if":
                if any(Lowerer.has_unimplemented(a["body"]) for a in m["arms"]):
                    return True
                if m["else"] is not None and Lowerer.has_unimplemented(m["else"]):
                    return True
            if m["m"] == "optional" and Lowerer.has_unimplemented(m["body"]):
                return True
        return False

    def lower(self, corpus):
        for o in corpus:
            if o["kind"] == "test":
                continue
            oid = len(self.objects) + 1
            tags = o["tags"]
            pats, allf = patterns(tags.get("versions", []) + tags.get("paste_versions", []))
            lv, lall = login_versions(tags.get("login_versions", []))
            r = {"id": oid, "kind": o["kind"], "name": o["name"], "file": o["file"], "line": o["line"],
                 "pats": pats, "all": allf, "lv": lv, "lall": lall,
                 "paste": "paste_versions" in tags,
                 "test": tags.get("test", ["false"])[-1] == "true",
                 "skip": tags.get("skip_codegen", ["false"])[-1] == "true",
                 "unimpl": tags.get("unimplemented", ["false"])[-1] == "true",
                 "comp": tags.get("compressed", ["false"])[-1] == "true",
                 "zav": tags.get("zero_is_always_valid", ["false"])[-1] == "true",
                 "base": "", "w": 0, "signed": False, "enums": [], "op": [], "blk": 0}
            if o["kind"] in ("enum", "flag"):
                r["base"] = o["base"]
                r["w"] = INT_WIDTH[o["base"]]
                r["signed"] = o["base"].startswith("i")
                for e in o["enumerators"]:
                    v = F.parse_value(e["value"])
                    if not isinstance(v, int):
                        raise ValueError("%s.%s: non-integer value %r" % (o["name"], e["name"], e["value"]))
                    vv = v + (1 << (8 * r["w"])) if v < 0 else v
                    r["enums"].append({"n": e["name"], "le": le_bytes(v, 8), "bits": bits_of(vv)})
            else:
                if o["opcode"] is not None:
                    v = F.parse_value(o["opcode"])
                    r["op"] = le_bytes(v, 4)
                if self.has_unimplemented(o["members"]):
                    r["unimpl"] = True
                r["blk"] = self.new_block(o["members"], self.scan_container(o["members"]))
            self.objects.append(r)
        return self

    def index(self):
        idx = {}
        for o in self.objects:
            idx.setdefault(o["name"], []).append(o["id"])
        return idx

    def write(self, outdir):
        os.makedirs(outdir, exist_ok=True)
        with open(os.path.join(outdir, "objects.ndjson"), "w") as f:
            for o in self.objects:
                f.write(json.dumps(o, separators=(",", ":")) + "\n")
        with open(os.path.join(outdir, "blocks.ndjson"), "w") as f:
            for b in self.blocks:
                f.write(json.dumps(b, separators=(",", ":")) + "\n")
        with open(os.path.join(outdir, "index.json"), "w") as f:
            json.dump(self.index(), f, separators=(",", ":"))


def lower_repo(outdir, repo="/repo", extra_objects=None):
    corpus = F.load_corpus(repo)
    if extra_objects:
        corpus = corpus + extra_objects
    lw = Lowerer().lower(corpus)
    lw.write(outdir)
    return lw, corpus


if __name__ == "__main__":
    out = sys.argv[1] if len(sys.argv) > 1 else "/verif/work/lowered"
    lw, corpus = lower_repo(out)
    print("objects", len(lw.objects), "blocks", len(lw.blocks), file=sys.stderr)
