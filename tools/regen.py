"""The regenerate stage (DESIGN.md section 4.5).

Builds /repo's generator with hooks on, runs it on a scratch copy of /repo, and reports how the
scratch tree differs from /repo. Results that other checks need (regenerated IR, the file-op trace,
the list of differing paths) are cached under /verif/.cache/regen/<hash> keyed by the content of
everything the run depends on, so several checks in a row pay for it once.
"""
import hashlib
import json
import os
import shutil
import subprocess
import sys
import time

from tools import common as C

GEN_TARGET = os.path.join(C.CACHE, "gen-target")
GEN_BIN = os.path.join(GEN_TARGET, "debug", "wow_message_parser")
SCRATCH_ROOT = os.environ.get("VERIF_SCRATCH", "/tmp/wowm-verif-scratch")

# files the sandbox snapshot emptied (see /root/.vp/EMPTIED_FILES.txt); they are data blobs whose
# committed content is not the generator's output by construction of the snapshot.
EMPTIED = {
    "intermediate_representation.json",
    "wow_items/src/tbc/data.rs", "wow_items/src/vanilla/data.rs", "wow_items/src/wrath/data.rs",
    "wow_spells/src/tbc/data.rs", "wow_spells/src/vanilla/data.rs", "wow_spells/src/wrath/data.rs",
}


def build_generator():
    t0 = time.time()
    e = C.cargo_env()
    e["RUSTFLAGS"] = "--cfg wowm_verif --check-cfg cfg(wowm_verif)"
    e["CARGO_TARGET_DIR"] = GEN_TARGET
    p = subprocess.run(["cargo", "build", "--offline", "-p", "wow_message_parser"], cwd=C.REPO, env=e,
                       capture_output=True, text=True)
    if p.returncode != 0:
        raise C.ToolError("generator build failed:\n" + p.stderr[-4000:])
    C.log("[regen] generator built in %.1fs" % (time.time() - t0))
    return GEN_BIN


def make_scratch(name):
    """Copy of /repo (without target/ and .git/) under SCRATCH_ROOT. Caller removes it."""
    d = os.path.join(SCRATCH_ROOT, "%s-%d" % (name, os.getpid()))
    shutil.rmtree(d, ignore_errors=True)
    os.makedirs(SCRATCH_ROOT, exist_ok=True)
    p = subprocess.run(["rsync", "-a", "--exclude", "/target", "--exclude", "/.git", C.REPO + "/", d + "/"],
                       capture_output=True, text=True)
    if p.returncode != 0:
        raise C.ToolError("rsync failed: " + p.stderr[-1000:])
    return d


def remove_scratch(d):
    shutil.rmtree(d, ignore_errors=True)
    try:
        os.rmdir(SCRATCH_ROOT)
    except OSError:
        pass


def run_generator(ws, trace=None, crash_at=None, crash_mode=None, timeout=600, hashseed_env=None):
    """Runs the hooked generator on workspace `ws`. Returns (rc, stdout, stderr, wall)."""
    e = dict(os.environ)
    e["WOWM_VERIF_WORKSPACE"] = ws
    if trace:
        if os.path.exists(trace):
            os.remove(trace)
        e["WOWM_VERIF_TRACE"] = trace
    else:
        e.pop("WOWM_VERIF_TRACE", None)
    e.pop("WOWM_VERIF_CRASH_AT", None)
    e.pop("WOWM_VERIF_CRASH_MODE", None)
    if crash_at is not None:
        e["WOWM_VERIF_CRASH_AT"] = str(crash_at)
    if crash_mode:
        e["WOWM_VERIF_CRASH_MODE"] = crash_mode
    if hashseed_env:
        e.update(hashseed_env)
    t0 = time.time()
    p = subprocess.run([GEN_BIN], cwd=ws, env=e, capture_output=True, text=True, errors="replace",
                       timeout=timeout)
    return p.returncode, p.stdout, p.stderr, time.time() - t0


def read_trace(path):
    out = []
    if path and os.path.exists(path):
        for line in open(path):
            line = line.strip()
            if line:
                out.append(json.loads(line))
    return out


def tree_files(root):
    """relative path -> (size, sha1) for every file under root except target/.git."""
    out = {}
    for dp, dn, fn in os.walk(root):
        rel = os.path.relpath(dp, root)
        if rel == ".":
            dn[:] = [d for d in dn if d not in ("target", ".git")]
        for f in fn:
            p = os.path.join(dp, f)
            r = os.path.normpath(os.path.join(rel, f))
            try:
                with open(p, "rb") as fh:
                    data = fh.read()
            except OSError:
                continue
            out[r] = (len(data), hashlib.sha1(data).hexdigest())
    return out


def diff_trees(a, b):
    """a, b: results of tree_files. Returns dict path -> 'only_a' | 'only_b' | 'differs'."""
    out = {}
    for k in a:
        if k not in b:
            out[k] = "only_a"
        elif a[k] != b[k]:
            out[k] = "differs"
    for k in b:
        if k not in a:
            out[k] = "only_b"
    return out


def input_hash():
    """Hash of everything the regen result depends on: whole /repo tree minus target/.git."""
    h = hashlib.sha1()
    files = tree_files(C.REPO)
    for k in sorted(files):
        h.update(k.encode())
        h.update(files[k][1].encode())
    return h.hexdigest(), files


def regen(force=False):
    """Returns dict with: dir (cache dir holding ir.json, trace.ndjson, wireshark/, docs list),
    diff (path -> kind, scratch vs /repo), rc, stderr_tail."""
    key, repo_files = input_hash()
    d = os.path.join(C.CACHE, "regen", key)
    meta_path = os.path.join(d, "meta.json")
    if not force and os.path.exists(meta_path):
        meta = json.load(open(meta_path))
        meta["dir"] = d
        meta["cached"] = True
        return meta
    # drop older cache entries (disk)
    shutil.rmtree(os.path.join(C.CACHE, "regen"), ignore_errors=True)
    os.makedirs(d, exist_ok=True)
    build_generator()
    ws = make_scratch("regen")
    try:
        trace = os.path.join(d, "trace.ndjson")
        rc, out, err, wall = run_generator(ws, trace=trace)
        after = tree_files(ws)
        diff = diff_trees(repo_files, after)
        # keep the artefacts other checks read
        keep = {
            "intermediate_representation.json": "ir.json",
            "intermediate_representation_schema.json": "ir_schema.json",
        }
        for src, dst in keep.items():
            sp = os.path.join(ws, src)
            if os.path.exists(sp):
                shutil.copy(sp, os.path.join(d, dst))
        wsd = os.path.join(ws, "wow_message_parser", "tests", "wireshark")
        if os.path.isdir(wsd):
            shutil.copytree(wsd, os.path.join(d, "wireshark"), dirs_exist_ok=True)
        # changed files (other than the emptied blobs) are kept for inspection/replay
        changed_dir = os.path.join(d, "changed")
        for rel, kind in diff.items():
            if rel in EMPTIED or kind == "only_a":
                continue
            dst = os.path.join(changed_dir, rel)
            os.makedirs(os.path.dirname(dst), exist_ok=True)
            shutil.copy(os.path.join(ws, rel), dst)
        with open(os.path.join(d, "gen.stdout"), "w") as f:
            f.write(out)
        with open(os.path.join(d, "gen.stderr"), "w") as f:
            f.write(err)
        meta = {"rc": rc, "wall": wall, "diff": diff, "key": key,
                "stderr_tail": err[-2000:], "n_files": len(after)}
        with open(meta_path, "w") as f:
            json.dump(meta, f)
    finally:
        remove_scratch(ws)
    meta["dir"] = d
    meta["cached"] = False
    return meta


if __name__ == "__main__":
    m = regen(force="--force" in sys.argv)
    print(json.dumps({k: v for k, v in m.items() if k != "diff"}, indent=1))
    print("diff:", json.dumps(m["diff"], indent=1)[:2000])
