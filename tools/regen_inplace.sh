#!/bin/sh
# Regenerates /repo in place with the generator built from /repo's working tree (used when preparing
# "fix:" commits that touch a printer). Restores the data blobs the sandbox snapshot emptied.
set -e
cd /repo
# force a relink: another source tree may have been built into the same target dir
touch wow_message_parser/src/main.rs
RUSTFLAGS="--cfg wowm_verif --check-cfg cfg(wowm_verif)" CARGO_TARGET_DIR=/verif/.cache/gen-target-lead cargo build --offline -p wow_message_parser 2>&1 | tail -1
WOWM_VERIF_WORKSPACE=/repo /verif/.cache/gen-target-lead/debug/wow_message_parser > /dev/null
git checkout -- intermediate_representation.json wow_items/src/tbc/data.rs wow_items/src/vanilla/data.rs wow_items/src/wrath/data.rs wow_spells/src/tbc/data.rs wow_spells/src/vanilla/data.rs wow_spells/src/wrath/data.rs
git status --short | head -40
