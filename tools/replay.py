"""Feeds behaviour records to a harness subcommand in parallel chunks, surviving process aborts
(stack overflow, abort()) of the code under test: a chunk whose process dies is bisected down to
the single record that kills it, which is reported with verdict "abort"."""
import concurrent.futures
import json
import subprocess

from tools import common as C


def _run_chunk(binary, sub, lines, timeout):
    """Runs one process over `lines`. Returns (verdicts, n_done, crashed_index or None, err)."""
    try:
        p = subprocess.run([binary] + sub, input="".join(lines), capture_output=True, text=True,
                           timeout=timeout, env=C.cargo_env())
        out, rc, err = p.stdout, p.returncode, p.stderr
    except subprocess.TimeoutExpired as ex:
        out = ex.stdout.decode() if isinstance(ex.stdout, bytes) else (ex.stdout or "")
        rc, err = "timeout", "timeout"
    verdicts, at = [], 0
    for l in out.splitlines():
        if l.startswith("@"):
            at = int(l[1:])
        elif l.strip():
            try:
                verdicts.append(json.loads(l))
            except ValueError:
                pass  # torn last line of a dying process
    if rc == 0:
        return verdicts, len(lines), None, None
    return verdicts, at, at, "rc=%s %s" % (rc, (err or "")[-300:].strip())


def _solve(binary, sub, lines, timeout):
    """Returns list of verdict dicts (non-ok ones + summary dicts). A record that kills the process
    (stack overflow, abort) is reported with verdict "abort" and the run resumes after it."""
    out = []
    pos = 0
    while pos < len(lines):
        verdicts, done, crashed, err = _run_chunk(binary, sub, lines[pos:], timeout)
        if crashed is None:
            out.extend(verdicts)
            break
        # records before the crashing one were judged: keep their verdicts, synthesize a summary
        kept = [v for v in verdicts if "summary" not in v]
        out.extend(kept)
        judged = max(crashed - 1, 0)
        out.append({"summary": {"records": judged, "ok": judged - len(kept)}})
        if crashed == 0:
            raise C.ToolError("harness died before the first record: %s" % err)
        rec = json.loads(lines[pos + crashed - 1])
        out.append({"id": rec.get("id"), "name": rec.get("name"), "exp": rec.get("exp"), "lv": rec.get("lv"),
                    "dir": rec.get("dir"), "prof": rec.get("prof"),
                    "verdict": "timeout" if err.startswith("rc=timeout") else "abort",
                    "detail": {"process": err, "record": rec}})
        out.append({"summary": {"records": 1, "ok": 0}})
        pos += crashed
    return out


def run_records(binary, sub, record_lines, chunk=1000, jobs=8, timeout=600):
    """record_lines: iterable of JSON text lines (with trailing newline). Returns (verdicts, totals)."""
    chunks, cur = [], []
    for l in record_lines:
        cur.append(l if l.endswith("\n") else l + "\n")
        if len(cur) >= chunk:
            chunks.append(cur)
            cur = []
    if cur:
        chunks.append(cur)
    verdicts, total, ok = [], 0, 0
    with concurrent.futures.ThreadPoolExecutor(max_workers=jobs) as ex:
        for res in ex.map(lambda c: _solve(binary, sub, c, timeout), chunks):
            for v in res:
                if "summary" in v:
                    total += v["summary"]["records"]
                    ok += v["summary"]["ok"]
                else:
                    verdicts.append(v)
    return verdicts, {"records": total, "ok": ok}
