#!/bin/bash
# usage: seed_confirm.sh <ID> <crate dir> <demo file in SEED> <cargo test args...>
# Confirms a seeded change in its worktree /tmp/seed-<ID>: demo with the change, demo without
# (git apply -R), change re-applied, full suite with the change.  Prints the summary lines.
ID=$1; CR=$2; DEMO=$3; shift 3
WT=/tmp/seed-$ID; S=$WT/SEED
cd $WT || exit 2
name=$(basename $DEMO .rs)
mkdir -p $CR/tests; cp $S/$DEMO $CR/tests/$name.rs
# make sure the worktree is exactly HEAD + patch
git stash list >/dev/null
git diff --quiet HEAD -- . ':!SEED' && { echo "worktree has no change; applying patch"; git apply $S/patch.diff || exit 2; }
echo "== with change"; (cd $CR && cargo test --offline -j 6 "$@" --test $name 2>&1 | grep -E "^test result|error(\[|:)|panicked" | head -5)
git apply -R $S/patch.diff || { echo "reverse failed"; exit 2; }
echo "== without change"; (cd $CR && cargo test --offline -j 6 "$@" --test $name 2>&1 | grep -E "^test result|error(\[|:)|panicked" | head -5)
git apply $S/patch.diff || { echo "re-apply failed"; exit 2; }
rm -f $CR/tests/$name.rs; rmdir $CR/tests 2>/dev/null
echo "== suite with change"; cargo test --workspace --offline -j 8 2>&1 | grep -E "^test result|FAILED|error(\[|:)" | awk '{p+=$4; f+=$6} END {print "passed", p, "failed", f}'
