#!/bin/sh
# usage: seed_eval.sh <patch.diff> <check id>...   - applies a seeded change to /repo, runs the checks
# (quick tier), prints rc and number of VIOLATION lines for each, and reverses the change.
P="$1"; shift
git -C /repo apply "$P" || { echo "patch does not apply"; exit 2; }
cd /verif
for c in "$@"; do
  start=$(date +%s)
  ./check "$c" quick > /tmp/seed_eval_$c.out 2>&1
  rc=$?
  echo "$c rc=$rc violations=$(grep -c '^VIOLATION' /tmp/seed_eval_$c.out) known=$(grep -c '^KNOWN-FINDING' /tmp/seed_eval_$c.out) wall=$(( $(date +%s) - start ))s"
  grep -A1 '^VIOLATION' /tmp/seed_eval_$c.out | grep '^   x' | head -3 | cut -c1-260
done
git -C /repo apply -R "$P"
