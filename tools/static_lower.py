"""Lowering of front-end object tables for spec/WowmStatic.tla (property C16).

Unlike tools/lower.py (which serves the wire walker and may assume a well-formed program) this
lowering must survive ILL-FORMED programs: it never resolves, never validates, never raises on an
unknown base type or a non-numeric enumerator value.  It is purely syntactic re-shaping:

  * version tag strings are split on white space into patterns; a pattern is the list of its dotted
    integer components, `*` is the empty list (so "covers" is "is a prefix of" in the spec);
    `versions` (object's own + #tag_all), `paste_versions` and `login_versions` stay SEPARATE lists -
    the meaning of paste_versions (one copy of the object per pattern) is given by the spec;
  * enumerator values: lexical class of the literal ("int" / "neg" / "bad" = not one of the number
    formats of lang-spec) and, for numbers, the magnitude as >= 10 little-endian bytes (TLC integers
    are 32 bit);
  * opcodes: the integer (all opcodes of the corpus and of the mutants are < 2^31), -1 if absent;
  * member trees are kept as nested records with uniform keys;
  * `uses`: the user-type names mentioned by declarations of the object (lexical scan) - only used to
    build the reverse index that lets the spec restrict rule evaluation to the objects a mutation can
    reach.

Also extracts the opcode index the generator checks world messages against
(wow_message_parser/src/parser/stats/{vanilla,tbc,wrath}_messages.rs: `Data::new("NAME", 0x123)`),
a plain data table, into {expansion: {name: opcode}}.
"""
import json
import os
import re

from tools import wowm_front as F
from tools.lower import BUILTIN

MAG_BYTES = 10


def pattern(p):
    if p == "*":
        return []
    return [int(x) for x in p.split(".")]


def patterns(tagvals):
    out = []
    for val in tagvals:
        for p in val.split():
            out.append(pattern(p))
    return out


def lower_value(raw):
    v = F.parse_value(raw)
    if isinstance(v, bool) or not isinstance(v, int):
        return {"k": "bad", "le": [0] * MAG_BYTES, "raw": raw if isinstance(raw, str) else json.dumps(raw)}
    mag = abs(v)
    le = []
    while mag:
        le.append(mag & 0xFF)
        mag >>= 8
    le += [0] * max(0, MAG_BYTES - len(le))
    return {"k": "neg" if v < 0 else "int", "le": le, "raw": raw if isinstance(raw, str) else json.dumps(raw)}


def lower_members(ms, uses):
    out = []
    for m in ms:
        if m["m"] == "decl":
            a = m["array"]
            const = m["const"]
            if isinstance(const, dict):
                const = json.dumps(const)
            out.append({"m": "decl", "name": m["name"], "ty": m["type"], "up": m["upcast"] or "",
                        "arr": a["size"] if a else "none", "cf": a.get("field", "") if a else "",
                        "const": const or ""})
            if m["type"] not in BUILTIN:
                uses.add(m["type"])
        elif m["m"] == "if":
            arms = []
            for arm in m["arms"]:
                conds = [{"var": c["var"], "op": c["op"],
                          "val": c["val"] if isinstance(c["val"], str) else json.dumps(c["val"])}
                         for c in arm["conds"]]
                arms.append({"conds": conds, "body": lower_members(arm["body"], uses)})
            out.append({"m": "if", "arms": arms, "haselse": m["else"] is not None,
                        "els": lower_members(m["else"] or [], uses)})
        elif m["m"] == "optional":
            out.append({"m": "opt", "name": m["name"], "body": lower_members(m["body"], uses)})
        else:
            out.append({"m": "unimpl"})
    return out


def lower_object(o, oid):
    tags = o["tags"]
    r = {"id": oid, "kind": o["kind"], "name": o["name"], "file": o["file"], "line": o["line"],
         "wv": patterns(tags.get("versions", [])), "pv": patterns(tags.get("paste_versions", [])),
         "lv": patterns(tags.get("login_versions", [])),
         "istest": tags.get("test", ["false"])[-1] == "true",
         "base": "", "enums": [], "op": -1, "mem": [], "uses": []}
    if o["kind"] in ("enum", "flag"):
        r["base"] = o["base"]
        r["enums"] = [dict(lower_value(e["value"]), n=e["name"]) for e in o["enumerators"]]
    else:
        if o["opcode"] is not None:
            v = F.parse_value(o["opcode"])
            r["op"] = v if isinstance(v, int) and 0 <= v < 2 ** 31 else -2
        uses = set()
        r["mem"] = lower_members(o["members"], uses)
        r["uses"] = sorted(uses)
    return r


def lower_objects(objs, first_id=1):
    out = []
    for o in objs:
        if o["kind"] == "test":
            continue
        out.append(lower_object(o, first_id + len(out)))
    return out


def name_index(lowered):
    idx = {}
    for o in lowered:
        idx.setdefault(o["name"], []).append(o["id"])
    return idx


def used_by_index(lowered):
    idx = {}
    for o in lowered:
        for n in o["uses"]:
            idx.setdefault(n, []).append(o["id"])
    return idx


_DATA = re.compile(r'Data::(?:new|nyi)\(\s*"([A-Za-z0-9_]+)"\s*,\s*(0x[0-9A-Fa-f]+|[0-9]+)\s*,?\s*\)')


def opcode_index(repo):
    out = {}
    for exp in ("vanilla", "tbc", "wrath"):
        p = os.path.join(repo, "wow_message_parser", "src", "parser", "stats", exp + "_messages.rs")
        tab = {}
        with open(p) as f:
            for name, op in _DATA.findall(f.read()):
                tab[name] = int(op, 0)
        out[exp] = tab
    return out


def write_program(outdir, corpus, repo):
    """corpus: front-end objects. Writes objects.ndjson, index.json, usedby.json, opcodes.json."""
    os.makedirs(outdir, exist_ok=True)
    lowered = lower_objects(corpus)
    with open(os.path.join(outdir, "objects.ndjson"), "w") as f:
        for o in lowered:
            f.write(json.dumps(o, separators=(",", ":")) + "\n")
    with open(os.path.join(outdir, "index.json"), "w") as f:
        json.dump(name_index(lowered), f, separators=(",", ":"))
    with open(os.path.join(outdir, "usedby.json"), "w") as f:
        json.dump(used_by_index(lowered), f, separators=(",", ":"))
    with open(os.path.join(outdir, "opcodes.json"), "w") as f:
        json.dump(opcode_index(repo), f, separators=(",", ":"))
    return lowered
