"""Corpus `test` vectors as frames for TraceVectors.tla and for the harness."""
import json

from tools import wowm_front as F

EXPS = {"vanilla": [1, 12], "tbc": [2, 4, 3, 8606], "wrath": [3, 3, 5, 12340]}
LOGIN = [2, 3, 5, 6, 7, 8]


def contexts_of_tags(tags):
    out = []
    for val in tags.get("login_versions", []):
        for p in val.split():
            out += [("login", n) for n in (LOGIN if p == "*" else [int(p)]) if n in LOGIN]
    for val in tags.get("versions", []) + tags.get("paste_versions", []):
        for p in val.split():
            for e, ver in EXPS.items():
                if p == "*" or ver[:len(p.split("."))] == [int(x) for x in p.split(".")]:
                    out.append((e, 0))
    seen, res = set(), []
    for c in out:
        if c not in seen:
            seen.add(c)
            res.append(c)
    return res


def corpus_vectors(corpus):
    kinds = {}
    for o in corpus:
        if o["kind"] in ("cmsg", "smsg", "msg", "clogin", "slogin"):
            kinds.setdefault(o["name"], set()).add(o["kind"])
    vecs = []
    vid = 0
    for o in corpus:
        if o["kind"] != "test":
            continue
        frame = [F.parse_value(b) & 0xFF for b in o["bytes"]]
        ks = kinds.get(o["name"], set())
        dirs = set()
        for k in ks:
            if k in ("cmsg", "clogin"):
                dirs.add("client")
            elif k in ("smsg", "slogin"):
                dirs.add("server")
            else:
                dirs |= {"client", "server"}
        for exp, lv in contexts_of_tags(o["tags"]):
            for d in sorted(dirs):
                vid += 1
                vecs.append({"vid": vid, "name": o["name"], "exp": exp, "lv": lv, "dir": d, "frame": frame,
                             "file": o["file"], "line": o["line"]})
    return vecs
