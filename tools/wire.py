"""Runs spec/WowmWire.tla over the lowered corpus (sharded over several TLC processes) and collects
the behaviour records it prints."""
import concurrent.futures
import json
import os
import time

from tools import common as C
from tools import lower


def lowered_dir(name="lowered"):
    return os.path.join(C.WORK, name)


def prepare(name="lowered", extra_objects=None):
    d = lowered_dir(name)
    lw, corpus = lower.lower_repo(d, C.REPO, extra_objects)
    return d, lw, corpus


def _run_shard(args):
    (ldir, shard, nshards, nprof, maxlen, only, deep, workers, timeout, outpath, tag, simulate) = args
    env = {
        "WOWM_OBJECTS": os.path.join(ldir, "objects.ndjson"),
        "WOWM_BLOCKS": os.path.join(ldir, "blocks.ndjson"),
        "WOWM_INDEX": os.path.join(ldir, "index.json"),
        "WOWM_NSHARDS": nshards, "WOWM_SHARD": shard, "WOWM_NPROF": nprof, "WOWM_MAXLEN": maxlen,
        "WOWM_ONLY": only, "WOWM_DEEP": "1" if deep else "0",
    }
    with open(outpath, "w") as sink:
        res = C.run_tlc("WowmWire", workers=workers, timeout=timeout, env=env,
                        name="%s-shard%d" % (tag, shard), replay_sink=sink, keep_replay_in_memory=False,
                        coverage=True, xmx="5g", simulate=simulate)
    return {"shard": shard, "generated": res.generated, "distinct": res.distinct, "depth": res.depth,
            "coverage": res.coverage, "wall": res.wall, "path": outpath}


def run_wire(ldir, outdir, nshards=4, workers=4, nprof=1, maxlen=2, only="", deep=False, timeout=1500,
             tag="wire", simulate=None):
    """Returns (list of shard stats, list of record file paths)."""
    os.makedirs(outdir, exist_ok=True)
    jobs = []
    for s in range(nshards):
        jobs.append((ldir, s, nshards, nprof, maxlen, only, deep, workers, timeout,
                     os.path.join(outdir, "records-%d.ndjson" % s), tag, simulate))
    t0 = time.time()
    with concurrent.futures.ThreadPoolExecutor(max_workers=nshards) as ex:
        stats = list(ex.map(_run_shard, jobs))
    C.log("[wire] %d shards, %d states in %.1fs" % (nshards, sum(s["distinct"] for s in stats), time.time() - t0))
    return stats, [s["path"] for s in stats]


def iter_records(paths):
    for p in paths:
        with open(p) as f:
            for line in f:
                line = line.strip()
                if line:
                    yield json.loads(line)
