"""Runs spec/WowmWire.tla over the lowered corpus (sharded over several TLC processes) and collects
the behaviour records it prints."""
import concurrent.futures
import json
import os
import time

from tools import common as C
from tools import lower


EMPTY_LIST = os.path.join(C.SPEC, "empty_list.json")


def const_sized(ldir, tag, nshards=8):
    """Runs spec/MCConst.tla; returns (path of a JSON list of constant-sized (message, context) pairs, all ivs)."""
    import concurrent.futures

    def run(k):
        env = {"WOWM_OBJECTS": os.path.join(ldir, "objects.ndjson"), "WOWM_BLOCKS": os.path.join(ldir, "blocks.ndjson"),
               "WOWM_INDEX": os.path.join(ldir, "index.json"), "WOWM_NSHARDS": nshards, "WOWM_SHARD": k,
               "WOWM_NPROF": 1, "WOWM_MAXLEN": 2, "WOWM_ONLY": "", "WOWM_DEEP": "0", "WOWM_FAULTS": "0",
               "WOWM_FAULT_EVERY": 1, "WOWM_FAULT_PHASE": 0, "WOWM_CONST": EMPTY_LIST}
        return C.run_tlc("MCConst", workers=1, timeout=900, env=env, name="%s-const-%d" % (tag, k), coverage=False, xmx="3g")

    with concurrent.futures.ThreadPoolExecutor(nshards) as ex:
        results = list(ex.map(run, range(nshards)))
    ivs = [r for x in results for r in x.replay]
    const = [{"id": r["id"], "exp": r["exp"], "lv": r["lv"]} for r in ivs if r["lo"] == r["hi"]]
    path = os.path.join(C.WORK, "const-%s.json" % tag)
    with open(path, "w") as f:
        json.dump(const, f)
    return path, ivs, results


def lowered_dir(name="lowered"):
    return os.path.join(C.WORK, name)


def prepare(name="lowered", extra_objects=None):
    d = lowered_dir(name)
    lw, corpus = lower.lower_repo(d, C.REPO, extra_objects)
    return d, lw, corpus


def _run_shard(args):
    (ldir, shard, nshards, nprof, maxlen, only, deep, workers, timeout, outpath, tag, simulate, faults, fault_every, const_path, det_after, extra_env) = args
    env = {
        "WOWM_OBJECTS": os.path.join(ldir, "objects.ndjson"),
        "WOWM_BLOCKS": os.path.join(ldir, "blocks.ndjson"),
        "WOWM_INDEX": os.path.join(ldir, "index.json"),
        "WOWM_NSHARDS": nshards, "WOWM_SHARD": shard, "WOWM_NPROF": nprof, "WOWM_MAXLEN": maxlen,
        "WOWM_ONLY": only, "WOWM_DEEP": "1" if deep else "0",
        "WOWM_FAULTS": faults, "WOWM_FAULT_EVERY": fault_every, "WOWM_FAULT_PHASE": C.seed() % max(int(fault_every), 1),
        "WOWM_CONST": const_path or EMPTY_LIST,
    }
    if det_after is not None:
        env["WOWM_DET_AFTER"] = det_after
    if extra_env:
        env.update(extra_env)
    with open(outpath, "w") as sink:
        res = C.run_tlc("WowmWire", workers=workers, timeout=timeout, env=env,
                        name="%s-shard%d" % (tag, shard), replay_sink=sink, keep_replay_in_memory=False,
                        coverage=True, xmx="5g", simulate=simulate)
    return {"shard": shard, "generated": res.generated, "distinct": res.distinct, "depth": res.depth,
            "coverage": res.coverage, "wall": res.wall, "path": outpath}


def run_wire(ldir, outdir, nshards=4, workers=4, nprof=1, maxlen=2, only="", deep=False, timeout=1500,
             tag="wire", simulate=None, faults="0", fault_every=1, const_path=None, det_after=None, extra_env=None):
    """Returns (list of shard stats, list of record file paths)."""
    os.makedirs(outdir, exist_ok=True)
    jobs = []
    for s in range(nshards):
        jobs.append((ldir, s, nshards, nprof, maxlen, only, deep, workers, timeout,
                     os.path.join(outdir, "records-%d.ndjson" % s), tag, simulate, faults, fault_every, const_path, det_after, extra_env))
    t0 = time.time()
    with concurrent.futures.ThreadPoolExecutor(max_workers=nshards) as ex:
        stats = list(ex.map(_run_shard, jobs))
    C.log("[wire] %d shards, %d states in %.1fs" % (nshards, sum(s["distinct"] for s in stats), time.time() - t0))
    return stats, [s["path"] for s in stats]


def iter_records(paths):
    for p in paths:
        with open(p) as f:
            for line in f:
                line = line.strip()
                if line:
                    yield json.loads(line)
