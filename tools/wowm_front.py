"""Independent front-end for the wowm language: wowm text -> object table (JSON).

Written from wowm_language/src/spec/*.md. It is deliberately dumb: it performs NO semantic step -
no name resolution, no version matching, no size computation, no flattening of conditionals. The
only interpretation it applies is lexical: number literals are kept as raw text (and parsed into
Python ints by `parse_value` for callers that ask), `#tag_all` values are appended to each object's
tag list in file order, `///` comments become `comment` tags.

Object table record shapes (all JSON):
  definer   {"kind":"enum"|"flag","name","base","enumerators":[{"name","value","tags"}],"tags","file","line"}
  container {"kind":"struct|clogin|slogin|cmsg|smsg|msg","name","opcode":raw|None,"members":[M],"tags","file","line"}
     M = {"m":"decl","type","upcast":T|None,"array":None|{"size":"fixed","n":int}|{"size":"var","field":name}|{"size":"endless"},
          "name","const":raw|None,"tags"}
       | {"m":"if","arms":[{"conds":[{"var","op","val"}],"body":[M]}],"else":[M]|None}
       | {"m":"optional","name","body":[M],"tags"}
       | {"m":"unimplemented"}
  test      {"kind":"test","name","fields":[F],"bytes":[raw],"tags","file","line"}
     F = {"name","value": {"v":[raw,...]} | {"array":[raw]} | {"obj":[F]} | {"objs":[[F]]}, "tags"}
Tags: dict name -> list of string values (object's own first, then #tag_all values).
"""
import json
import os
import re
import sys

BASIC_TYPES = ["i8", "i16", "i32", "i64", "u8_be", "u16_be", "u32_be", "u64_be", "u8", "u16", "u32",
               "u64", "i32_be", "f32_be", "f32", "f64_be", "f64", "u48", "CString"]
CONTAINER_KW = ("struct", "clogin", "slogin", "smsg", "cmsg", "msg")

_TOKEN = re.compile(r"""
    (?P<ws>\s+)
  | (?P<block>/\*.*?\*/)
  | (?P<doc>///[^\n]*)
  | (?P<str>"[^"]*")
  | (?P<sym>\|\||==|!=|[#;:=\{\}\[\]\(\),|&-])
  | (?P<word>[A-Za-z0-9_.]+)
""", re.X | re.S)


class WowmSyntaxError(Exception):
    pass


def tokenize(text, fname):
    toks = []
    pos, line = 0, 1
    n = len(text)
    while pos < n:
        m = _TOKEN.match(text, pos)
        if not m:
            raise WowmSyntaxError("%s:%d: unexpected character %r" % (fname, line, text[pos]))
        kind = m.lastgroup
        s = m.group()
        if kind == "doc":
            toks.append(("doc", s[3:].strip(), line))
        elif kind == "str":
            toks.append(("str", s[1:-1], line))
        elif kind == "sym":
            toks.append(("sym", s, line))
        elif kind == "word":
            toks.append(("word", s, line))
        line += s.count("\n")
        pos = m.end()
    toks.append(("eof", "", line))
    return toks


class Parser:
    def __init__(self, text, fname):
        self.t = tokenize(text, fname)
        self.i = 0
        self.fname = fname

    # -- token helpers
    def peek(self, k=0):
        return self.t[min(self.i + k, len(self.t) - 1)]

    def next(self):
        tok = self.t[self.i]
        self.i += 1
        return tok

    def err(self, msg):
        tok = self.peek()
        raise WowmSyntaxError("%s:%d: %s (at %r)" % (self.fname, tok[2], msg, tok[1]))

    def is_sym(self, s, k=0):
        tok = self.peek(k)
        return tok[0] == "sym" and tok[1] == s

    def is_word(self, s=None, k=0):
        tok = self.peek(k)
        return tok[0] == "word" and (s is None or tok[1] == s)

    def expect_sym(self, s):
        if not self.is_sym(s):
            self.err("expected %r" % s)
        return self.next()

    def expect_word(self):
        if not self.is_word():
            self.err("expected identifier")
        return self.next()[1]

    def docs(self):
        out = []
        while self.peek()[0] == "doc":
            out.append(self.next()[1])
        return out

    # -- values
    def value(self):
        """value: number forms, self.size, quoted string, identifier. Returned raw:
        strings as {"str": text}, everything else as text."""
        tok = self.peek()
        if tok[0] == "str":
            self.next()
            return {"str": tok[1]}
        if tok[0] == "sym" and tok[1] == "-":
            self.next()
            w = self.expect_word()
            return "-" + w
        if tok[0] == "word":
            self.next()
            return tok[1]
        self.err("expected value")

    # -- tag blocks
    def kv_block(self):
        """'{' (ident '=' string ';')+ '}' -> dict name -> [values]"""
        self.expect_sym("{")
        tags = {}
        while not self.is_sym("}"):
            name = self.expect_word()
            self.expect_sym("=")
            tok = self.next()
            if tok[0] != "str":
                self.err("expected string tag value")
            self.expect_sym(";")
            tags.setdefault(name, []).append(tok[1])
        self.expect_sym("}")
        return tags

    @staticmethod
    def merge_tags(dst, src):
        for k, v in src.items():
            dst.setdefault(k, []).extend(v)

    # -- file
    def parse_file(self):
        commands = []
        while self.is_sym("#"):
            self.next()
            cmd = self.expect_word()
            name = self.expect_word()
            tok = self.next()
            if tok[0] != "str":
                self.err("expected string in command")
            self.expect_sym(";")
            commands.append((cmd, name, tok[1]))
        objects = []
        pending_docs = []
        while self.peek()[0] != "eof":
            pending_docs += self.docs()
            tok = self.peek()
            if tok[0] == "eof":
                break
            if tok[0] != "word":
                self.err("expected statement keyword")
            kw = tok[1]
            line = tok[2]
            if kw in ("enum", "flag"):
                o = self.definer()
            elif kw in CONTAINER_KW:
                o = self.container()
            elif kw == "test":
                o = self.test()
            else:
                self.err("unknown statement keyword")
            o["file"] = self.fname
            o["line"] = line
            if pending_docs:
                o["tags"].setdefault("comment", [])
                o["tags"]["comment"] = pending_docs + o["tags"]["comment"]
                pending_docs = []
            for cmd, name, val in commands:
                if cmd == "tag_all":
                    o["tags"].setdefault(name, []).append(val)
            objects.append(o)
        return objects

    # -- definers
    def definer(self):
        kind = self.next()[1]
        name = self.expect_word()
        self.expect_sym(":")
        base = self.expect_word()
        self.expect_sym("{")
        enumerators = []
        while not self.is_sym("}"):
            docs = self.docs()
            ename = self.expect_word()
            self.expect_sym("=")
            val = self.value()
            tags = {}
            if self.is_sym("{"):
                tags = self.kv_block()
            else:
                self.expect_sym(";")
            if docs:
                tags["comment"] = docs + tags.get("comment", [])
            enumerators.append({"name": ename, "value": val, "tags": tags})
        self.expect_sym("}")
        tags = {}
        while self.is_sym("{"):
            self.merge_tags(tags, self.kv_block())
        return {"kind": kind, "name": name, "base": base, "enumerators": enumerators, "tags": tags}

    # -- containers
    def container(self):
        kind = self.next()[1]
        name = self.expect_word()
        opcode = None
        if self.is_sym("="):
            self.next()
            opcode = self.value()
        self.expect_sym("{")
        members = self.members()
        self.expect_sym("}")
        tags = {}
        if self.is_sym("{"):
            tags = self.kv_block()
        return {"kind": kind, "name": name, "opcode": opcode, "members": members, "tags": tags}

    def members(self):
        out = []
        while not self.is_sym("}"):
            docs = self.docs()
            m = self.member()
            if docs and isinstance(m.get("tags"), dict):
                m["tags"]["comment"] = docs + m["tags"].get("comment", [])
            out.append(m)
        return out

    def conds(self):
        self.expect_sym("(")
        conds = []
        while True:
            var = self.expect_word()
            tok = self.next()
            if tok[0] != "sym" or tok[1] not in ("==", "&", "!="):
                self.err("expected operator")
            val = self.value()
            conds.append({"var": var, "op": tok[1], "val": val})
            if self.is_sym("||"):
                self.next()
                continue
            break
        self.expect_sym(")")
        return conds

    def member(self):
        if self.is_word("if"):
            self.next()
            arms = []
            conds = self.conds()
            self.expect_sym("{")
            body = self.members()
            self.expect_sym("}")
            arms.append({"conds": conds, "body": body})
            els = None
            while self.is_word("else"):
                self.next()
                if self.is_word("if"):
                    self.next()
                    conds = self.conds()
                    self.expect_sym("{")
                    body = self.members()
                    self.expect_sym("}")
                    arms.append({"conds": conds, "body": body})
                else:
                    self.expect_sym("{")
                    els = self.members()
                    self.expect_sym("}")
                    break
            return {"m": "if", "arms": arms, "else": els}
        if self.is_word("optional") and self.is_word(None, 1) and self.is_sym("{", 2):
            self.next()
            name = self.expect_word()
            self.expect_sym("{")
            body = self.members()
            self.expect_sym("}")
            tags = {}
            if self.is_sym("{"):
                tags = self.kv_block()
            return {"m": "optional", "name": name, "body": body, "tags": tags}
        if self.is_word("unimplemented") and (self.is_sym("}", 1) or self.peek(1)[0] == "doc"):
            self.next()
            return {"m": "unimplemented"}
        # declaration
        upcast = None
        if self.is_sym("("):
            self.next()
            upcast = self.expect_word()
            self.expect_sym(")")
        ty = self.expect_word()
        array = None
        if self.is_sym("["):
            self.next()
            if self.is_sym("-"):
                self.next()
                array = {"size": "endless"}
            else:
                w = self.expect_word()
                if re.fullmatch(r"[0-9]+|0x[0-9A-Fa-f]+|0b[01]+", w):
                    array = {"size": "fixed", "n": int(w, 0)}
                else:
                    array = {"size": "var", "field": w}
            self.expect_sym("]")
        name = self.expect_word()
        const = None
        while self.is_sym("="):
            self.next()
            const = self.value()
        tags = {}
        if self.is_sym("{"):
            tags = self.kv_block()
        else:
            self.expect_sym(";")
        return {"m": "decl", "type": ty, "upcast": upcast, "array": array, "name": name,
                "const": const, "tags": tags}

    # -- tests
    def test(self):
        self.next()
        name = self.expect_word()
        self.expect_sym("{")
        fields = self.test_items()
        self.expect_sym("}")
        self.expect_sym("[")
        data = self.values_until("]")
        self.expect_sym("]")
        tags = {}
        if self.is_sym("{"):
            tags = self.kv_block()
        return {"kind": "test", "name": name, "fields": fields, "bytes": data, "tags": tags}

    def values_until(self, end):
        vals = []
        while not self.is_sym(end):
            vals.append(self.value())
            if self.is_sym(","):
                self.next()
        return vals

    def test_items(self):
        out = []
        while not self.is_sym("}"):
            name = self.expect_word()
            self.expect_sym("=")
            if self.is_sym("["):
                self.next()
                if self.is_sym("{"):
                    objs = []
                    while self.is_sym("{"):
                        self.next()
                        objs.append(self.test_items())
                        self.expect_sym("}")
                        if self.is_sym(","):
                            self.next()
                    self.expect_sym("]")
                    val = {"objs": objs}
                else:
                    val = {"array": self.values_until("]")}
                    self.expect_sym("]")
            elif self.is_sym("{"):
                self.next()
                val = {"obj": self.test_items()}
                self.expect_sym("}")
            else:
                vs = [self.value()]
                while self.is_sym("|"):
                    self.next()
                    vs.append(self.value())
                val = {"v": vs}
            tags = {}
            if self.is_sym("{"):
                tags = self.kv_block()
            else:
                self.expect_sym(";")
            out.append({"name": name, "value": val, "tags": tags})
        return out


def parse_value(raw):
    """Lexical meaning of a wowm value literal (lang-spec 'allowed number formats').
    Returns int, float, or the identifier string unchanged. Strings pack big-endian with \\0 -> NUL."""
    if isinstance(raw, dict):
        s = raw["str"].replace("\\0", "\0")
        v = 0
        for ch in s.encode("utf-8"):
            v = (v << 8) | ch
        return v
    if re.fullmatch(r"0x[0-9A-Fa-f]+", raw):
        return int(raw, 16)
    if re.fullmatch(r"0b[01]+", raw):
        return int(raw, 2)
    if re.fullmatch(r"-?[0-9]+", raw):
        return int(raw)
    if re.fullmatch(r"-?[0-9]+\.[0-9]+", raw):
        return float(raw)
    return raw


def parse_text(text, fname="<text>"):
    return Parser(text, fname).parse_file()


def parse_tree(root):
    """Parse every .wowm under root (sorted walk). Returns list of objects; file paths relative to root."""
    objs = []
    for dp, dn, fn in os.walk(root):
        dn.sort()
        for f in sorted(fn):
            if f.endswith(".wowm"):
                p = os.path.join(dp, f)
                rel = os.path.relpath(p, root)
                with open(p, encoding="utf-8") as fh:
                    objs.extend(parse_text(fh.read(), rel))
    return objs


def load_corpus(repo="/repo"):
    base = os.path.join(repo, "wow_message_parser", "wowm")
    out = []
    for sub in ("login", "world"):
        for o in parse_tree(os.path.join(base, sub)):
            o["file"] = os.path.join(sub, o["file"])
            o["corpus"] = sub
            out.append(o)
    return out


if __name__ == "__main__":
    corpus = load_corpus(sys.argv[1] if len(sys.argv) > 1 else "/repo")
    from collections import Counter
    print(Counter(o["kind"] for o in corpus), file=sys.stderr)
    json.dump(corpus, sys.stdout)
