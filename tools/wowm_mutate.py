"""Textual mutation of the wowm corpus for property C16.

Scans a .wowm file with the front-end's token grammar, keeping character offsets, so that ONE small
edit can be applied to the text at a chosen SITE (the generator then reads exactly the mutated text,
and the front-end re-reads the same text to give the specification its object table).

This module only produces candidate mutants and classifies the SITE of each (where in the corpus
the edit lands).  It does not decide what a mutant's diagnostic should be - that is the job of
spec/WowmStatic.tla; the `intent` field is a label for reports only.

Site classes (the quantifier of C16):
  object level : plain (own tags block) | tag_all (file uses #tag_all) | paste (paste_versions) |
                 shared (struct / definer used by containers of several different versions)
  member level : top | if | elseif | else | optional  (innermost enclosing block of the edit)
"""
import random
import re

from tools import wowm_front as F
from tools.lower import BUILTIN

INT_BITS = {"u8": 8, "u16": 16, "u32": 32, "u64": 64, "i8": 8, "i16": 16, "i32": 32, "i64": 64, "u48": 48}


def tokens(text):
    out = []
    pos, n = 0, len(text)
    while pos < n:
        m = F._TOKEN.match(text, pos)
        if not m:
            raise F.WowmSyntaxError("unexpected character %r at %d" % (text[pos], pos))
        k = m.lastgroup
        if k in ("doc", "str", "sym", "word"):
            out.append((k, m.group(), m.start(), m.end()))
        pos = m.end()
    out.append(("eof", "", n, n))
    return out


class Scan:
    """Structure of one file with offsets."""

    def __init__(self, text):
        self.text = text
        self.t = tokens(text)
        self.i = 0
        self.commands = []   # {name, value, start, end}
        self.objects = []
        self.parse()

    def pk(self, k=0):
        return self.t[min(self.i + k, len(self.t) - 1)]

    def nx(self):
        tok = self.t[self.i]
        self.i += 1
        return tok

    def is_(self, kind, s=None, k=0):
        tok = self.pk(k)
        return tok[0] == kind and (s is None or tok[1] == s)

    def expect(self, kind, s=None):
        if not self.is_(kind, s):
            raise F.WowmSyntaxError("scan: expected %s %r at %r" % (kind, s, self.pk()))
        return self.nx()

    def parse(self):
        while self.is_("sym", "#"):
            a = self.nx()
            self.expect("word")
            name = self.expect("word")[1]
            val = self.expect("str")
            e = self.expect("sym", ";")
            self.commands.append({"name": name, "value": val[1][1:-1], "start": a[2], "end": e[3]})
        while not self.is_("eof"):
            while self.is_("doc"):
                self.nx()
            if self.is_("eof"):
                break
            kw = self.expect("word")
            if kw[1] in ("enum", "flag"):
                self.definer(kw)
            elif kw[1] in F.CONTAINER_KW:
                self.container(kw)
            elif kw[1] == "test":
                self.test(kw)
            else:
                raise F.WowmSyntaxError("scan: unknown keyword %r" % (kw,))

    def value(self):
        a = self.nx()
        if a[0] == "sym" and a[1] == "-":
            b = self.nx()
            return (a[2], b[3])
        return (a[2], a[3])

    def tagblock(self):
        """at '{' ; returns {open, close, end, tags:[{key,value,start,end,vstart,vend}]}"""
        a = self.expect("sym", "{")
        tags = []
        while not self.is_("sym", "}"):
            k = self.expect("word")
            self.expect("sym", "=")
            v = self.expect("str")
            e = self.expect("sym", ";")
            tags.append({"key": k[1], "value": v[1][1:-1], "start": k[2], "end": e[3], "vstart": v[2] + 1, "vend": v[3] - 1})
        c = self.expect("sym", "}")
        return {"open": a[2], "close": c[2], "end": c[3], "tags": tags}

    def definer(self, kw):
        name = self.expect("word")
        self.expect("sym", ":")
        base = self.expect("word")
        ob = self.expect("sym", "{")
        enums = []
        while not self.is_("sym", "}"):
            while self.is_("doc"):
                self.nx()
            n = self.expect("word")
            self.expect("sym", "=")
            vs, ve = self.value()
            if self.is_("sym", "{"):
                tb = self.tagblock()
                end = tb["end"]
            else:
                end = self.expect("sym", ";")[3]
            enums.append({"name": n[1], "start": n[2], "end": end, "vstart": vs, "vend": ve, "vtext": self.text[vs:ve]})
        cb = self.expect("sym", "}")
        tb = None
        end = cb[3]
        while self.is_("sym", "{"):
            tb = self.tagblock()
            end = tb["end"]
        self.objects.append({"kind": kw[1], "name": name[1], "start": kw[2], "end": end, "base": base[1],
                             "base_start": base[2], "base_end": base[3], "body_open": ob[3], "body_close": cb[2],
                             "enums": enums, "tagblock": tb, "name_start": name[2], "name_end": name[3]})

    def container(self, kw):
        name = self.expect("word")
        op = None
        if self.is_("sym", "="):
            self.nx()
            vs, ve = self.value()
            op = {"start": vs, "end": ve, "text": self.text[vs:ve]}
        ob = self.expect("sym", "{")
        o = {"kind": kw[1], "name": name[1], "start": kw[2], "opcode": op, "body_open": ob[3],
             "decls": [], "conds": [], "blocks": [], "ifs": [], "unimplemented": False,
             "name_start": name[2], "name_end": name[3]}
        self.block(o, "top", ("top",), ob[3])
        cb = self.expect("sym", "}")
        o["body_close"] = cb[2]
        o["end"] = cb[3]
        o["tagblock"] = None
        if self.is_("sym", "{"):
            o["tagblock"] = self.tagblock()
            o["end"] = o["tagblock"]["end"]
        self.objects.append(o)

    def block(self, o, cls, path, open_end):
        blk = {"cls": cls, "path": path, "open_end": open_end, "n_members": 0}
        o["blocks"].append(blk)
        while not self.is_("sym", "}"):
            while self.is_("doc"):
                self.nx()
            if self.is_("sym", "}"):
                break
            blk["n_members"] += 1
            if self.is_("word", "if") and self.is_("sym", "(", 1):
                self.ifstmt(o, cls, path)
            elif self.is_("word", "optional") and self.is_("word", None, 1) and self.is_("sym", "{", 2):
                self.nx()
                nm = self.nx()
                b = self.expect("sym", "{")
                self.block(o, "optional", path + ("optional",), b[3])
                self.expect("sym", "}")
                if self.is_("sym", "{"):
                    self.tagblock()
                o.setdefault("optionals", []).append({"name": nm[1], "start": nm[2], "end": nm[3]})
            elif self.is_("word", "unimplemented") and (self.is_("sym", "}", 1) or self.pk(1)[0] == "doc"):
                self.nx()
                o["unimplemented"] = True
            else:
                self.decl(o, cls, path)
        return blk

    def conds(self, o, ifrec, arm):
        self.expect("sym", "(")
        cs = []
        while True:
            var = self.expect("word")
            op = self.nx()
            vs, ve = self.value()
            cs.append({"var": var[1], "var_start": var[2], "var_end": var[3], "op": op[1], "op_start": op[2],
                       "op_end": op[3], "val": self.text[vs:ve], "val_start": vs, "val_end": ve, "arm": arm,
                       "if": ifrec})
            if self.is_("sym", "||"):
                self.nx()
                continue
            break
        self.expect("sym", ")")
        for j, c in enumerate(cs):
            c["idx"] = j
            c["n"] = len(cs)
        o["conds"].extend(cs)
        return cs

    def ifstmt(self, o, cls, path):
        kw = self.nx()
        ifrec = {"cls": cls, "path": path, "start": kw[2], "arms": []}
        o["ifs"].append(ifrec)
        cs = self.conds(o, ifrec, 0)
        ifrec["arms"].append(cs)
        b = self.expect("sym", "{")
        self.block(o, "if", path + ("if",), b[3])
        self.expect("sym", "}")
        arm = 0
        while self.is_("word", "else"):
            self.nx()
            if self.is_("word", "if"):
                self.nx()
                arm += 1
                cs = self.conds(o, ifrec, arm)
                ifrec["arms"].append(cs)
                b = self.expect("sym", "{")
                self.block(o, "elseif", path + ("elseif",), b[3])
                self.expect("sym", "}")
            else:
                b = self.expect("sym", "{")
                self.block(o, "else", path + ("else",), b[3])
                self.expect("sym", "}")
                break

    def decl(self, o, cls, path):
        first = self.pk()
        up = None
        if self.is_("sym", "("):
            self.nx()
            up = self.expect("word")[1]
            self.expect("sym", ")")
        ty = self.expect("word")
        arr = None
        if self.is_("sym", "["):
            self.nx()
            if self.is_("sym", "-"):
                self.nx()
                arr = "-"
            else:
                arr = self.expect("word")[1]
            self.expect("sym", "]")
        name = self.expect("word")
        const = None
        while self.is_("sym", "="):
            self.nx()
            vs, ve = self.value()
            const = self.text[vs:ve]
        if self.is_("sym", "{"):
            end = self.tagblock()["end"]
        else:
            end = self.expect("sym", ";")[3]
        o["decls"].append({"name": name[1], "type": ty[1], "type_start": ty[2], "type_end": ty[3], "upcast": up,
                           "array": arr, "const": const, "start": first[2], "end": end, "cls": cls, "path": path,
                           "name_start": name[2], "name_end": name[3]})

    def test(self, kw):
        # skip: name { ... } [ ... ] {tags}?   (brace / bracket matching on tokens)
        name = self.expect("word")
        depth = 0
        self.expect("sym", "{")
        depth = 1
        while depth:
            t = self.nx()
            if t[0] == "sym" and t[1] == "{":
                depth += 1
            elif t[0] == "sym" and t[1] == "}":
                depth -= 1
        self.expect("sym", "[")
        while not self.is_("sym", "]"):
            self.nx()
        end = self.nx()[3]
        if self.is_("sym", "{"):
            end = self.tagblock()["end"]
        self.objects.append({"kind": "test", "name": name[1], "start": kw[2], "end": end, "tagblock": None})


def splice(text, start, end, new):
    return text[:start] + new + text[end:]


def line_indent(text, pos):
    ls = text.rfind("\n", 0, pos) + 1
    m = re.match(r"[ \t]*", text[ls:])
    return m.group()


# ----------------------------------------------------------------------------------------------
# site model
# ----------------------------------------------------------------------------------------------

class Corpus:
    def __init__(self, repo):
        import os
        self.repo = repo
        self.base = os.path.join(repo, "wow_message_parser", "wowm")
        self.front = F.load_corpus(repo)
        self.files = {}          # rel path -> Scan
        self.text = {}
        self.by_name = {}
        self.front_by_file = {}
        for o in self.front:
            self.front_by_file.setdefault(o["file"], []).append(o)
        for o in self.front:
            if o["kind"] != "test":
                self.by_name.setdefault(o["name"], []).append(o)
        for rel in sorted({o["file"] for o in self.front}):
            with open(os.path.join(self.base, rel), encoding="utf-8") as f:
                txt = f.read()
            self.text[rel] = txt
            self.files[rel] = Scan(txt)
        # lexical "who mentions whom"
        self.users = {}
        for o in self.front:
            if "members" in o:
                for ty in self.types_of(o["members"]):
                    self.users.setdefault(ty, []).append(o)
        self.tests_of = {}
        for o in self.front:
            if o["kind"] == "test":
                self.tests_of.setdefault(o["name"], []).append(o)

    @staticmethod
    def types_of(ms):
        out = set()
        for m in ms:
            if m["m"] == "decl":
                if m["type"] not in BUILTIN:
                    out.add(m["type"])
            elif m["m"] == "if":
                for a in m["arms"]:
                    out |= Corpus.types_of(a["body"])
                if m["else"] is not None:
                    out |= Corpus.types_of(m["else"])
            elif m["m"] == "optional":
                out |= Corpus.types_of(m["body"])
        return out

    def front_obj(self, rel, so):
        """front-end object matching scanned object `so` of file rel (same order in file)."""
        return self.front_by_file[rel][self.files[rel].objects.index(so)]

    def version_strings(self, fo):
        t = fo["tags"]
        return tuple(sorted(t.get("versions", []) + t.get("paste_versions", []) + t.get("login_versions", [])))

    def obj_class(self, rel, so):
        fo = self.front_obj(rel, so)
        if "paste_versions" in fo["tags"]:
            return "paste"
        if self.files[rel].commands:
            return "tag_all"
        us = self.users.get(so["name"], [])
        if len({self.version_strings(u) for u in us}) >= 2 and so["kind"] in ("struct", "enum", "flag"):
            return "shared"
        return "plain"

    def same_base(self, name):
        bs = {o.get("base") for o in self.by_name.get(name, [])}
        kinds = {o["kind"] for o in self.by_name.get(name, [])}
        if len(bs) == 1 and len(kinds) == 1:
            return kinds.pop(), bs.pop()
        return None, None


# ----------------------------------------------------------------------------------------------
# mutation operators.  Each yields dicts: intent, cls (site class), file, desc, text
# ----------------------------------------------------------------------------------------------

def _ins_decl(c, rel, so, blk, decl_text):
    txt = c.text[rel]
    ind = line_indent(txt, so["start"]) + "    " * len(blk["path"])
    return splice(txt, blk["open_end"], blk["open_end"], "\n" + ind + decl_text)


def candidates(c):
    """Generator of every candidate mutant of the corpus (tens of thousands); the caller samples.
    Fields: intent (label only), oc (object site class), bc (block / sub-site class), var (variant),
    file, object, desc, text (the mutated file)."""
    for rel, sc in c.files.items():
        txt = c.text[rel]
        for so in sc.objects:
            if so["kind"] == "test":
                continue
            fo = c.front_obj(rel, so)
            if fo["tags"].get("test", ["false"])[-1] == "true":
                continue
            oc = c.obj_class(rel, so)
            where = "%s:%s" % (rel, so["name"])
            tb = so["tagblock"]
            vtags = [t for t in (tb["tags"] if tb else []) if t["key"] in ("versions", "login_versions", "paste_versions")]
            is_login = "login_versions" in fo["tags"]
            okind = "definer" if so["kind"] in ("enum", "flag") else ("struct" if so["kind"] == "struct" else "message")

            def M(intent, bc, var, desc, text):
                return {"intent": intent, "oc": oc, "bc": bc, "var": var, "file": rel, "object": so["name"],
                        "desc": "%s: %s" % (where, desc), "text": text}

            # ---- object level: versions -------------------------------------------------------
            if vtags and len(vtags) == 1 and not sc.commands:
                t = vtags[0]
                if len(tb["tags"]) == 1:
                    yield M("no_version", okind, "", "tags block removed", splice(txt, tb["open"], tb["end"], ""))
                else:
                    yield M("no_version", okind, "", "%s tag removed" % t["key"], splice(txt, t["start"], t["end"], ""))
            if tb and vtags:
                other = 'versions = "1.12";' if is_login else 'login_versions = "2";'
                yield M("both_versions", okind, "login" if is_login else "world", "added " + other,
                        splice(txt, tb["close"], tb["close"], "    " + other + "\n"))
            copy = txt[so["start"]:so["end"]]
            yield M("overlapping_versions", okind, "same", "object duplicated", txt.rstrip("\n") + "\n\n" + copy + "\n")
            if tb and vtags and len(vtags) == 1 and vtags[0]["key"] == "versions":
                pats = vtags[0]["value"].split()
                p0 = pats[0]
                variants = []
                if p0 != "*" and p0.count(".") < 2:
                    variants.append(("narrower", p0 + ".9"))
                if p0.count(".") >= 1:
                    variants.append(("wider", p0.rsplit(".", 1)[0]))
                if p0 != "*":
                    parts = p0.split(".")
                    parts[-1] = str(int(parts[-1]) + 40)
                    variants.append(("sibling", ".".join(parts)))
                for vn, pv in variants:
                    whole = splice(txt, vtags[0]["vstart"], vtags[0]["vend"], pv)
                    cp = whole[so["start"]:so["end"] + len(pv) - len(vtags[0]["value"])]
                    intent = "none" if vn == "sibling" else "overlapping_versions"
                    yield M(intent, okind, vn, "object duplicated with versions %s (original %s)" % (pv, vtags[0]["value"]),
                            txt.rstrip("\n") + "\n\n" + cp + "\n")
                # lookup interplay: drop / specialise one pattern of a provider of other objects
                if so["kind"] in ("enum", "flag", "struct") and c.users.get(so["name"]):
                    if len(pats) > 1:
                        for j in range(len(pats)):
                            nv = " ".join(pats[:j] + pats[j + 1:])
                            yield M("unknown_type", "provider", "drop", "versions %r -> %r" % (vtags[0]["value"], nv),
                                    splice(txt, vtags[0]["vstart"], vtags[0]["vend"], nv))
                    for j in range(len(pats)):
                        if pats[j] != "*" and pats[j].count(".") < 2:
                            nv = " ".join(pats[:j] + [pats[j] + ".7"] + pats[j + 1:])
                            yield M("unknown_type", "provider", "specialise", "versions %r -> %r" % (vtags[0]["value"], nv),
                                    splice(txt, vtags[0]["vstart"], vtags[0]["vend"], nv))

            # ---- controls: a fresh, unused enum with a patch-level / exact-build version (tags.md formats)
            if so["kind"] == "enum" and not sc.commands:
                for vn, pv in (("patch", "1.12.1"), ("exact_build", "1.12.1.5875")):
                    yield M("none", "new_object", vn, "new enum VerifFresh appended with versions %s" % pv,
                            txt.rstrip("\n") + "\n\nenum VerifFresh : u8 {\n    A = 1;\n} {\n    versions = \"%s\";\n}\n" % pv)

            # ---- definers ---------------------------------------------------------------------
            if so["kind"] in ("enum", "flag"):
                bits = INT_BITS.get(so["base"])
                at = so["body_close"]
                ind_close = line_indent(txt, at)

                def add_enum(valtext):
                    return splice(txt, at, at, "    VERIF_INJECTED = %s;\n%s" % (valtext, ind_close))
                dk = so["kind"]
                if bits:
                    e0 = so["enums"][0]
                    yield M("duplicate_enumerator_values" if dk == "enum" else "none", dk, "dup",
                            "enumerator added with the value of %s (%s)" % (e0["name"], e0["vtext"]), add_enum(e0["vtext"]))
                    yield M("enumerator_out_of_range", dk, "above", "enumerator added with value 2^%d+1" % bits, add_enum(str(2 ** bits + 1)))
                    if not so["base"].startswith("i"):
                        yield M("enumerator_out_of_range", dk, "negative", "enumerator added with value -1", add_enum("-1"))
                        yield M("enumerator_out_of_range", dk, "2^n", "enumerator added with value 2^%d (one past the largest)" % bits, add_enum(str(2 ** bits)))
                        used = set()
                        for e in so["enums"]:
                            v = F.parse_value({"str": e["vtext"][1:-1]} if e["vtext"].startswith('"') else e["vtext"])
                            used.add(v)
                        if (2 ** bits - 1) not in used:
                            yield M("none", dk, "max", "enumerator added with value 2^%d-1 (the largest)" % bits, add_enum(str(2 ** bits - 1)))
                    yield M("invalid_enumerator_value", dk, "identifier", "enumerator added with value SOME_NAME", add_enum("SOME_NAME"))
                    yield M("invalid_enumerator_value", dk, "float", "enumerator added with value 1.5", add_enum("1.5"))
                    for bt in ("f32", "CString"):
                        yield M("invalid_base_type", dk, bt, "base type %s -> %s" % (so["base"], bt), splice(txt, so["base_start"], so["base_end"], bt))
                    if dk == "flag" and so["base"] in ("u8", "u16", "u32", "u64"):
                        sb = "i" + so["base"][1:]
                        yield M("flag_with_signed_type", dk, "", "base type %s -> %s" % (so["base"], sb), splice(txt, so["base_start"], so["base_end"], sb))
                continue

            # ---- containers -------------------------------------------------------------------
            if so["unimplemented"]:
                continue
            for blk in so["blocks"]:
                bc = blk["cls"]
                yield M("unknown_type", bc, "", "declaration of unknown type inserted in %s block" % bc,
                        _ins_decl(c, rel, so, blk, "VerifNoSuchType verif_injected;"))
                yield M("unsupported_upcast", bc, "", "upcast of a built-in type inserted in %s block" % bc,
                        _ins_decl(c, rel, so, blk, "(u32)u8 verif_injected;"))
                if so["kind"] == "struct":
                    yield M("recursive_type", bc, "scalar", "member of the struct's own type inserted in %s block" % bc,
                            _ins_decl(c, rel, so, blk, "%s verif_injected;" % so["name"]))
                    if bc == "top":
                        yield M("recursive_type", bc, "array", "array of the struct's own type inserted",
                                _ins_decl(c, rel, so, blk, "%s[2] verif_injected;" % so["name"]))
                if so["decls"]:
                    diff = [d for d in so["decls"] if d["path"] != blk["path"]]
                    d = (diff or so["decls"])[0]
                    yield M("duplicate_field_names", bc, "across" if diff else "same",
                            "second declaration named %s inserted in %s block" % (d["name"], bc),
                            _ins_decl(c, rel, so, blk, "u8 %s;" % d["name"]))
                for d in so["decls"]:
                    kind, base = c.same_base(d["type"])
                    if kind == "enum" and base in INT_BITS and d["array"] is None:
                        yield M("upcast_not_larger", bc, "same", "member (%s)%s inserted (enum base %s)" % (base, d["type"], base),
                                _ins_decl(c, rel, so, blk, "(%s)%s verif_injected;" % (base, d["type"])))
                        break
            decl_by_name = {d["name"]: d for d in so["decls"]}
            for cd in so["conds"]:
                ifr = cd["if"]
                d = decl_by_name.get(ifr["arms"][0][0]["var"])
                if d is None:
                    continue
                kind, base = c.same_base(d["type"])
                bc = ifr["cls"]
                pos = ("first" if cd["idx"] == 0 else "or") if cd["arm"] == 0 else "elseif_cond"
                arm = ifr["arms"][cd["arm"]]

                def all_ops(newop):
                    # every condition of this arm gets the operator (a condition list has ONE operator)
                    t2 = txt
                    for x in sorted(arm, key=lambda y: -y["op_start"]):
                        t2 = splice(t2, x["op_start"], x["op_end"], newop)
                    return t2
                apos = ("single" if cd["n"] == 1 else "or") if cd["arm"] == 0 else "elseif_cond"
                if cd["idx"] == 0 and kind == "enum" and all(x["op"] in ("==", "!=") for x in arm):
                    yield M("enum_with_and", bc, apos, "operator %s -> & on enum variable %s (arm %d)" % (cd["op"], cd["var"], cd["arm"] + 1),
                            all_ops("&"))
                if cd["idx"] == 0 and kind == "flag" and all(x["op"] == "&" for x in arm):
                    yield M("flag_with_equals", bc, apos, "operator & -> == on flag variable %s (arm %d)" % (cd["var"], cd["arm"] + 1),
                            all_ops("=="))
                    if cd["n"] == 1 and len(ifr["arms"]) == 1:
                        yield M("flag_with_equals", bc, apos + "/ne", "operator & -> != on flag variable %s" % cd["var"],
                                all_ops("!="))
                if kind in ("enum", "flag"):
                    yield M("missing_enumerator", bc, pos, "enumerator %s -> VERIF_NO_SUCH_ENUMERATOR" % cd["val"],
                            splice(txt, cd["val_start"], cd["val_end"], "VERIF_NO_SUCH_ENUMERATOR"))
                    prev = [x for x in so["decls"] if x["end"] <= ifr["start"] and x["name"] != cd["var"]]
                    if prev and (cd["idx"] > 0 or cd["arm"] > 0):
                        yield M("mismatched_if_variables", bc, "or" if cd["idx"] > 0 else "elseif_var",
                                "variable %s -> %s in condition %d of arm %d" % (cd["var"], prev[-1]["name"], cd["idx"] + 1, cd["arm"] + 1),
                                splice(txt, cd["var_start"], cd["var_end"], prev[-1]["name"]))
            for d in so["decls"]:
                if d["const"] == "self.size" and d["cls"] == "top":
                    ind = line_indent(txt, d["start"])
                    yield M("misplaced_self_size", "login" if is_login else "world", "", "CString member inserted before %s = self.size" % d["name"],
                            splice(txt, d["start"], d["start"], "CString verif_injected;\n" + ind))
            if so["kind"] in ("cmsg", "smsg", "msg") and so["opcode"] and not c.tests_of.get(so["name"]):
                op = F.parse_value(so["opcode"]["text"])
                if isinstance(op, int):
                    yield M("wrong_opcode", "message", "", "opcode %s -> 0x%04X" % (so["opcode"]["text"], op + 0x2000),
                            splice(txt, so["opcode"]["start"], so["opcode"]["end"], "0x%04X" % (op + 0x2000)))
                    newname = so["name"] + "_VERIF"
                    cp = copy.replace(so["name"], newname, 1)
                    yield M("wrong_name_in_index", "message", "", "copy of the message named %s with the same opcode" % newname,
                            txt.rstrip("\n") + "\n\n" + cp + "\n")
                    a = so["opcode"]["start"] - so["start"] + len("_VERIF")
                    b = so["opcode"]["end"] - so["start"] + len("_VERIF")
                    cp2 = splice(cp, a, b, "0x%04X" % (op + 0x2000))
                    yield M("not_in_index", "message", "", "copy of the message named %s with opcode 0x%04X" % (newname, op + 0x2000),
                            txt.rstrip("\n") + "\n\n" + cp2 + "\n")
        for cm in sc.commands:
            if cm["name"] in ("versions", "login_versions", "paste_versions"):
                yield {"intent": "no_version", "oc": "tag_all", "bc": "file", "var": "", "file": rel, "object": "*",
                       "desc": "%s: #tag_all %s removed" % (rel, cm["name"]), "text": splice(txt, cm["start"], cm["end"], "")}


def class_key(m, fine):
    """quick: a member-level site is classed by its block (top-level sites by the object class);
    thorough: object class x block class x variant."""
    if fine:
        return (m["intent"], m["oc"], m["bc"], m["var"])
    member_level = m["bc"] in ("top", "if", "elseif", "else", "optional")
    if m["intent"] == "none":
        return (m["intent"], m["bc"], m["var"])      # controls: one per kind of edit
    if m["var"] in ("float", "CString", "negative", "narrower", "wider", "specialise"):
        return (m["intent"], m["bc"], m["var"])      # secondary variants: one site each in the quick tier
    return (m["intent"], m["oc"] if (not member_level or m["bc"] == "top") else m["bc"], m["var"])


def select(cands, per_class, rng, fine):
    """Reservoir-sample `per_class` candidates per site class. Returns (list, {class: population})."""
    keep, seen = {}, {}
    for m in cands:
        k = class_key(m, fine)
        seen[k] = seen.get(k, 0) + 1
        g = keep.setdefault(k, [])
        if len(g) < per_class:
            g.append(m)
        else:
            j = rng.randrange(seen[k])
            if j < per_class:
                g[j] = m
    out = []
    for rank in range(per_class):            # rank-major: every class once, then every class a second time, ...
        for k in sorted(keep):
            if rank < len(keep[k]):
                out.append(keep[k][rank])
    return out, {"/".join(x for x in k if x): n for k, n in seen.items()}
