"""Pretty-printer for the front-end's object table (tools/wowm_front.py) and the bridge from
spec/WowmGrammar.tla's REPLAY records to that table (property C07).

  raise_program(rec, prefix, slot)  TLC record -> list of front-end objects (definers, structs, message)
  print_objects(objs)               front-end objects -> wowm text (inverse of wowm_front.parse_text)
  roundtrip_ok(objs)                parse_text(print_objects(objs)) == objs (modulo file / line)
  features(rec)                     purely syntactic inventory of the language features a program uses

No semantic step is taken here: names get a prefix, records change shape, text is laid out.
"""
import json
import sys

from tools import wowm_front as F


# ----------------------------------------------------------------------------------------------
# TLC record -> front-end shape
# ----------------------------------------------------------------------------------------------

def letters(n):
    """1 -> a, 2 -> b, ..., 27 -> aa: digit-free numbering (the Wireshark printer of the generator cuts
    identifiers at their first digit, so identifiers with digits collide; see notes/C07.md)."""
    s = ""
    while n > 0:
        n, r = divmod(n - 1, 26)
        s = chr(ord("a") + r) + s
    return s


def _digitless(local):
    """f3 -> c, E1 -> Ea, S2 -> Sb"""
    head = local.rstrip("0123456789")
    num = local[len(head):]
    return (head if head != "f" else "") + (letters(int(num)) if num else "")


def _raise_members(ms, rename, fname=lambda n: n):
    """fname: renaming of member identifiers (declarations, count references, if variables, optional names)"""
    out = []
    for m in ms:
        if m["m"] == "decl":
            arr = None
            if m["arr"] == "fixed":
                arr = {"size": "fixed", "n": m["n"]}
            elif m["arr"] == "var":
                arr = {"size": "var", "field": fname(m["field"])}
            elif m["arr"] == "endless":
                arr = {"size": "endless"}
            out.append({"m": "decl", "type": rename(m["type"]), "upcast": m["upcast"] or None, "array": arr,
                        "name": fname(m["name"]), "const": m["const"] if m["const"] != "" else None, "tags": {}})
        elif m["m"] == "if":
            arms = [{"conds": [{"var": fname(c["var"]), "op": c["op"], "val": c["val"]} for c in a["conds"]],
                     "body": _raise_members(a["body"], rename, fname)} for a in m["arms"]]
            out.append({"m": "if", "arms": arms,
                        "else": _raise_members(m["els"], rename, fname) if m["haselse"] else None})
        elif m["m"] == "optional":
            out.append({"m": "optional", "name": fname(m["name"]), "body": _raise_members(m["body"], rename, fname),
                        "tags": {}})
        else:
            raise ValueError("unknown member kind %r" % (m["m"],))
    return out


def raise_program(rec, prefix, slot_name, slot_opcode, versions="1.12", unique_fields=True):
    """rec: REPLAY record of WowmGrammar.  Local type names (E1, F2, S1) get `prefix`; the message takes the
    name and the opcode (raw text) of the slot it replaces.  unique_fields: member identifiers (f1, f2, ...,
    unique inside their container as the language demands) additionally get a prefix that makes them
    unique in the whole workspace."""
    local = {d["name"] for d in rec["defs"]} | {s["name"] for s in rec["structs"]}

    def rename(t):
        return prefix + _digitless(t) if t in local else t

    tags = lambda: {"versions": [versions]}
    def fpre(c):
        if unique_fields:
            return lambda n: "%s%s_%s" % (prefix.lower(), _digitless(c).lower(), _digitless(n))
        return lambda n: n       # the grammar's own names f1, f2, ... (unique inside the container only)
    objs = []
    for d in rec["defs"]:
        ens = [{"name": e["name"], "value": {"str": e["lit"]} if e["str"] else e["lit"], "tags": {}}
               for e in d["enumerators"]]
        objs.append({"kind": d["kind"], "name": rename(d["name"]), "base": d["base"], "enumerators": ens,
                     "tags": tags()})
    for s in rec["structs"]:
        objs.append({"kind": "struct", "name": rename(s["name"]), "opcode": None,
                     "members": _raise_members(s["members"], rename, fpre(s["name"])), "tags": tags()})
    objs.append({"kind": rec["kind"], "name": slot_name, "opcode": slot_opcode,
                 "members": _raise_members(rec["members"], rename, fpre("m")), "tags": tags()})
    return objs


# ----------------------------------------------------------------------------------------------
# front-end shape -> wowm text
# ----------------------------------------------------------------------------------------------

def _value(v):
    if isinstance(v, dict):
        return '"%s"' % v["str"]
    return v


def _tags_block(tags, ind):
    """`{ k = "v"; ... }` for every tag except doc comments (printed as /// lines by the caller)."""
    items = [(k, v) for k, vs in tags.items() if k != "comment" for v in vs]
    if not items:
        return None
    lines = ["{"]
    for k, v in items:
        lines.append("%s    %s = \"%s\";" % (ind, k, v))
    lines.append(ind + "}")
    return "\n".join(lines)


def _docs(tags, ind):
    return ["%s/// %s" % (ind, c) if c else "%s///" % ind for c in tags.get("comment", [])]


def _conds(cs):
    return " || ".join("%s %s %s" % (c["var"], c["op"], _value(c["val"])) for c in cs)


def _members(ms, ind, out):
    for m in ms:
        if m["m"] == "decl":
            out.extend(_docs(m["tags"], ind))
            t = m["type"]
            if m["upcast"]:
                t = "(%s)%s" % (m["upcast"], t)
            a = m["array"]
            if a:
                if a["size"] == "fixed":
                    t += "[%d]" % a["n"]
                elif a["size"] == "var":
                    t += "[%s]" % a["field"]
                else:
                    t += "[-]"
            s = "%s%s %s" % (ind, t, m["name"])
            if m["const"] is not None:
                s += " = %s" % _value(m["const"])
            tb = _tags_block(m["tags"], ind)
            out.append(s + (" " + tb if tb else ";"))
        elif m["m"] == "if":
            for i, arm in enumerate(m["arms"]):
                head = "if (%s) {" % _conds(arm["conds"])
                out.append(ind + head if i == 0 else "%s} else %s" % (ind, head))
                _members(arm["body"], ind + "    ", out)
            if m["else"] is not None:
                out.append(ind + "} else {")
                _members(m["else"], ind + "    ", out)
            out.append(ind + "}")
        elif m["m"] == "optional":
            out.extend(_docs(m["tags"], ind))
            out.append("%soptional %s {" % (ind, m["name"]))
            _members(m["body"], ind + "    ", out)
            tb = _tags_block(m["tags"], ind)
            out.append(ind + "}" + (" " + tb if tb else ""))
        elif m["m"] == "unimplemented":
            out.append(ind + "unimplemented")
        else:
            raise ValueError("unknown member %r" % (m,))


def print_object(o):
    out = list(_docs(o["tags"], ""))
    if o["kind"] in ("enum", "flag"):
        out.append("%s %s : %s {" % (o["kind"], o["name"], o["base"]))
        for e in o["enumerators"]:
            out.extend(_docs(e["tags"], "    "))
            tb = _tags_block(e["tags"], "    ")
            out.append("    %s = %s%s" % (e["name"], _value(e["value"]), " " + tb if tb else ";"))
    elif o["kind"] in F.CONTAINER_KW:
        head = "%s %s" % (o["kind"], o["name"])
        if o["opcode"] is not None:
            head += " = %s" % _value(o["opcode"])
        out.append(head + " {")
        _members(o["members"], "    ", out)
    else:
        raise ValueError("cannot print object kind %r" % (o["kind"],))
    tb = _tags_block(o["tags"], "")
    out.append("}" + (" " + tb if tb else ""))
    return "\n".join(out) + "\n"


def print_objects(objs):
    return "\n".join(print_object(o) for o in objs)


def strip(objs):
    """The table without positions (what a round trip must preserve)."""
    return [{k: v for k, v in o.items() if k not in ("file", "line", "corpus")} for o in objs]


def roundtrip_ok(objs):
    text = print_objects(objs)
    back = strip(F.parse_text(text, "<printed>"))
    return back == strip(objs), text


# ----------------------------------------------------------------------------------------------
# syntactic feature inventory (vacuity report + classification of known-defect shapes)
# ----------------------------------------------------------------------------------------------

_OPEN_TYPES = {"CString", "SizedCString", "PackedGuid", "String"}


def _arm_class(ms, snames):
    if not ms:
        return "E"
    for m in ms:
        if m["m"] != "decl" or m["type"] in _OPEN_TYPES or m["type"] in snames or m["arr"] in ("var", "endless"):
            return "O"
    return "F"


def features(rec):
    """Set of feature names used by a program (TLC record shape). Purely syntactic."""
    fs = set()
    kinds = {d["name"]: d["kind"] for d in rec["defs"]}
    snames = {s["name"] for s in rec["structs"]}
    for d in rec["defs"]:
        fs.add("%s:%s" % (d["kind"], d["base"]))
        if any(e["str"] for e in d["enumerators"]):
            fs.add("enumerator_string_value")

    def walk(ms, where, depth, in_if_kind):
        seen_if = False
        declared_here = set()
        for m in ms:
            if m["m"] == "decl":
                declared_here.add(m["name"])
            if m["m"] == "if" and m["arms"][0]["conds"][0]["var"] not in declared_here:
                # the tested variable is declared in an enclosing block, not in the block holding the if
                fs.add("shape:if_on_outer_variable")
                fs.add("shape:if_on_outer_variable_in_" + ("optional" if where == "optional" and depth == 0 else "if"))
            if m["m"] == "decl":
                t = m["type"]
                tk = kinds.get(t) or ("struct" if t in snames else "builtin")
                if m["arr"] != "none":
                    fs.add("array_%s_%s" % (m["arr"], tk if tk != "builtin" else t))
                    fs.add("array_%s" % m["arr"])
                    if m["arr"] == "endless" and seen_if:
                        fs.add("shape:endless_after_if")
                    if in_if_kind:
                        fs.add("array_in_if")
                elif m["const"] == "self.size":
                    fs.add("self_size")
                    fs.add("self_size_in_" + where)
                elif m["const"] != "":
                    fs.add("const")
                    if in_if_kind == "else":
                        fs.add("shape:const_in_else")
                    if in_if_kind:
                        fs.add("const_in_if")
                elif tk in ("enum", "flag"):
                    fs.add("%s_field" % tk)
                    if m["upcast"]:
                        fs.add("%s_upcast_%s" % (tk, m["upcast"]))
                elif tk == "struct":
                    fs.add("struct_field")
                    if in_if_kind:
                        fs.add("struct_field_in_if")
                else:
                    fs.add("scalar:" + t)
            elif m["m"] == "if":
                seen_if = True
                op = m["arms"][0]["conds"][0]["op"]
                opn = {"==": "eq", "!=": "ne", "&": "and"}[op]
                fs.add("if_" + opn)
                fs.add("if_in_" + where)
                if depth >= 1:
                    fs.add("if_nested")
                    fs.add("if_nested_%s_in_%s" % (opn, in_if_kind))
                if len(m["arms"]) > 1:
                    fs.add("elseif_" + opn)
                if m["haselse"]:
                    fs.add("else_" + opn)
                if any(len(a["conds"]) > 1 for a in m["arms"]):
                    fs.add("or_" + opn)
                # relative extents of the arms (syntactic): F = only fixed-width members, O = "open"
                # (strings, packed guids, variable arrays, structs, nested ifs), E = empty.  The sizes a
                # generator derives for an if depend on how the arms' extremes are ordered.
                cls = [_arm_class(a["body"], snames) for a in m["arms"]]
                if m["haselse"]:
                    fs.add("arms:%s/%s/else-%s" % (cls[0], "".join(sorted(set(cls[1:]))) or "-", _arm_class(m["els"], snames)))
                elif len(cls) > 1:
                    fs.add("arms:%s/%s" % (cls[0], "".join(sorted(set(cls[1:])))))
                for a in m["arms"]:
                    walk(a["body"], where, depth + 1, opn)
                if m["haselse"]:
                    walk(m["els"], where, depth + 1, "else")
            elif m["m"] == "optional":
                fs.add("optional")
                if seen_if:
                    fs.add("optional_after_if")
                walk(m["body"], "optional", depth, in_if_kind)

    # the same variable tested by more than one if statement of one container
    def multi(ms):
        cnt = {}

        def w(ms2):
            for m in ms2:
                if m["m"] == "if":
                    v = m["arms"][0]["conds"][0]["var"]
                    cnt[v] = cnt.get(v, 0) + 1
                    for a in m["arms"]:
                        w(a["body"])
                    if m["haselse"]:
                        w(m["els"])
                elif m["m"] == "optional":
                    w(m["body"])
        w(ms)
        return any(n > 1 for n in cnt.values())

    # two DIFFERENT tested variables of one definer type in one container (the generator names the
    # synthesised type <container>_<definer type>: both get the same name)
    def two_tested(ms):
        tyof, tested = {}, set()

        def w(ms2):
            for m in ms2:
                if m["m"] == "decl":
                    tyof[m["name"]] = m["type"]
                elif m["m"] == "if":
                    tested.add(m["arms"][0]["conds"][0]["var"])
                    for a in m["arms"]:
                        w(a["body"])
                    if m["haselse"]:
                        w(m["els"])
                elif m["m"] == "optional":
                    w(m["body"])
        w(ms)
        tys = [tyof.get(v) for v in tested]
        return len(tys) != len(set(tys))

    for s in rec["structs"]:
        walk(s["members"], "struct", 0, "")
        if multi(s["members"]):
            fs.add("variable_tested_by_several_ifs")
        if two_tested(s["members"]):
            fs.add("shape:two_tested_one_type")
    if two_tested(rec["members"]):
        fs.add("shape:two_tested_one_type")
    walk(rec["members"], "message", 0, "")
    if multi(rec["members"]):
        fs.add("variable_tested_by_several_ifs")
    fs.add("kind:" + rec["kind"])
    if not rec["members"]:
        fs.add("empty_message")
    return fs


if __name__ == "__main__":
    # python3 -m tools.wowm_print <records.ndjson>: print every program as wowm text
    for i, line in enumerate(open(sys.argv[1])):
        rec = json.loads(line)
        objs = raise_program(rec, "Vf" + letters(i + 27).capitalize(), "SMSG_SLOT", "0x%04X" % (0x700 + i))
        ok, text = roundtrip_ok(objs)
        print("/* program %d roundtrip=%s features=%s */" % (i, ok, sorted(features(rec))))
        print(text)
